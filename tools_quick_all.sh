#!/bin/bash
# runs every quick tier in sequence in /verif against /repo itself (rewrites every evidence file); summary in .work/quick_all.log
cd /verif; mkdir -p .work
: > .work/quick_all.log
for p in ${@:-C01 C02 C03 C04 C05 C06 C07 C08 C09 C10 C11 C12 C13 C14 C15 C16 C17 C18 C19 C20}; do
  S=$(date +%s)
  ./check $p --tier quick > .work/quick.$p.out 2>&1
  RC=$?
  echo "$p rc=$RC wall=$(( $(date +%s) - S ))s $(grep -a -c '^KNOWN-FINDING' .work/quick.$p.out) known $(grep -a -E '^VIOLATION|^MACHINERY|^STALE' .work/quick.$p.out | head -3 | cut -c1-200)" >> .work/quick_all.log
done
echo ALL-DONE >> .work/quick_all.log
