#!/bin/bash
# usage: tools_seed.sh <patch.diff> <Cxx> [tier]  — apply a seeded change to /repo, run the check, undo.
set -u
P=$1; ID=$2; TIER=${3:-quick}
cd /repo || exit 2
if ! git diff --quiet; then echo "/repo not clean"; exit 2; fi
git apply "$P" || { echo "patch does not apply"; exit 2; }
cd /verif
OUT=$(mktemp /tmp/seedrun.XXXXXX)
# the evidence file describes runs on the unchanged tree only: keep it aside while the changed tree is checked
EVB=$(mktemp /tmp/seedev.XXXXXX); cp evidence/$ID.json $EVB 2>/dev/null
./check $ID --tier $TIER > $OUT 2>&1
RC=$?
git -C /repo checkout -- .; rm -rf /verif/replays/$ID
[ -s $EVB ] && cp $EVB evidence/$ID.json; rm -f $EVB
grep -a -E "^VIOLATION|^KNOWN|^MACHINERY|^C[0-9]+ " $OUT | cut -c1-400 | head -8
rm -f $OUT
echo "exit=$RC"
