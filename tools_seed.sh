#!/bin/bash
# usage: tools_seed.sh <patch.diff> <Cxx> [tier]  — apply a seeded change to /repo, run the check, undo.
set -u
P=$1; ID=$2; TIER=${3:-quick}
cd /repo || exit 2
if ! git diff --quiet; then echo "/repo not clean"; exit 2; fi
git apply "$P" || { echo "patch does not apply"; exit 2; }
cd /verif
./check $ID --tier $TIER > /tmp/seedrun.out 2>&1
RC=$?
git -C /repo checkout -- .; rm -rf /verif/replays/$ID
grep -a -E "^VIOLATION|^KNOWN|^MACHINERY|^C[0-9]+ " /tmp/seedrun.out | cut -c1-400 | head -8
echo "exit=$RC"
cd /verif/harness && cargo build --release 2>&1 | grep -E "^error" -A7 | head
