#!/usr/bin/env python3
"""Regenerates MANIFEST.json from the table below (kept in one place so that it is always valid)."""
import json

CHECKS = {
 'C01': dict(engine='gev-c01', technique='bounded-exhaustive input-space exploration of the real compilers (string trie x parser contexts, single-deviation mutants, scaling families) with a step-fuel oracle',
   text='Every string over a 50-symbol template alphabet (and a 67-token alphabet) up to the stated length is placed in each of 40 parser control states and run through add_tmpl, all six emit APIs and both printers; every single deviation of a 67-seed well-formed corpus, every p^n scaling family and 13 depth-64 nesting families likewise; stylesheets over a 40-symbol / 45-token alphabet in 12 contexts under 8 (quick) / 1008 (thorough) option sets. Oracle: no panic, parser-step fuel below 4000+400n+8n^2, output below 64KiB+512n+64n^2, steps(2n)/steps(n)<=5. Exhaustive within the bound; nothing beyond it is claimed.',
   note='Trusted: catch_unwind, the fuel hook placement (all ParseState cursor primitives / StepParser token primitives), a 30 s watchdog for loops outside the cursor. Inputs nested deeper than 64 are outside the property.', ref='4/C01'),
 'C08': dict(engine='gev-c08', technique='bounded-exhaustive exploration of a stylesheet grammar (selector trees, wrapper chains, token-adjacency cube, filler insertion) against a token-level reference rewrite',
   text='Every selector of the model grammar up to function-nesting depth 2 (quick) / 3 (thorough), under every chain of rule-bearing at-rules up to length 2 / 3; every ordered pair (and triple, thorough) of 60 token kinds with and without a blank in 7 value contexts; every comment / blank filler at every gap. The output is re-tokenised and must equal the input token list with the documented rewrites applied; blanks the model marks as meaningful (descendant combinators at any depth, around + and - in calc) must survive; micro-syntax spans (An+B, unicode-range) are compared by denotation.',
   note='Trusted: cssparser tokenizer (both sides), parse_nth / UnicodeRange::parse for denotations. CSS nesting is outside the quantifier. Numeric values are compared loosely here (exactness is C10).', ref='4/C08'),
 'C09': dict(engine='gev-c08', technique='same exploration as C08 with the class-rewrite oracle: set of rewritten positions == set of class-name pieces of the model',
   text='On the C08 space (plus 6 prefix spellings incl. empty, non-ASCII, blank-containing) the model knows which identifier pieces are class names in selector context (any function depth, any rule-bearing wrapper, at-rule prelude blocks); each must come out as P--name exactly once, preceded by the sign comment iff configured, and no other identifier may acquire the prefix or a sign comment.',
   note='Trusted: cssparser tokenizer. An identifier after a dot separated by white space is not a class selector (model rule).', ref='4/C09'),
 'C10': dict(engine='gev-c10', technique='exhaustive sweep of numeric spellings (integer ranges, decimal grid, boundary and exponent forms) x contexts x units x ratios through the real transformer, token-level numeric oracle',
   text='All integers |n| < 2^17 in nine contexts as number / px / % / rpx (quick) and the whole i32 range as number and px (thorough); all k/1000 for k < 10^5; 47 hand-picked spellings (exponents, signed zero, leading dot / plus, f32 limits) and 54 boundary integers in every context x 10 units x 9 ratios. Each output numeric token is compared with its input token: rpx -> vw with value*100/ratio within 2^-23 relative (expected computed in f64), other units untouched, integers exactly equal, non-integers within 2^-23.',
   note='Trusted: cssparser tokenizer for the value of a spelling. Deviations that are exactly the six-significant-digit rendering of the correctly computed f32 are one known finding (pinned by the unit tests); anything else is a violation.', ref='4/C10'),
 'C17': dict(engine='gev-c17', technique='bounded-exhaustive enumeration of rule trees x option sets; expected normal / low-priority outputs built as model sheets and compared token by token',
   text='Every rule tree over 8 leaf kinds (ordinary rule, :host, @font-face block, :host(.a), :host .a, .a :host, :host,.b, :host:hover) and 3 rule-bearing wrappers up to depth 1 with lists of <= 2, deeper trees (depth 2 quick / 3 thorough) over 3 leaf kinds, and flat lists of <= 3 / 4 rules, under every option set {convert_host} x {class_prefix} x {host_is} x {sign}. The normal output must be the input minus moved / dropped rules in order; the low-priority output must be, per plain :host rule in order, the same wrapper chain around [wx-host="P"](,[is="H"]) with transformed declarations; one HostSelectorCombination warning per dropped rule; nothing moves with conversion off.',
   note='Trusted: cssparser tokenizer; the token-level reference rewrite shared with C08. `.a :host` (host not first) is modelled as an ordinary rule, as the anchored mechanism defines detection at the start of a rule.', ref='4/C17'),
 'C18': dict(engine='gev-c18', technique='bounded-exhaustive enumeration of import paths x spellings x condition combinations x positions; token-level expected output with an independent percent-decoder',
   text='Every path over an 18-symbol alphabet (quotes, backslash, */ ingredients, %, hex digits, blank, newline, non-ASCII, astral, parentheses, semicolon) up to length 2 (quick) / 3 (thorough) in the four spellings "…", \'…\', url(…), url("…"), with every combination of layer() / supports() / 4 media conditions at 7 positions, with and without an import sign, with and without a following rule; longer paths (3 / 4) with a reduced condition set. With a sign: exactly one placeholder comment whose percent-decoding is the path, wrapped in @layer / @supports / @media blocks token-equal to the conditions, balanced, at the import position; imports after a rule or block are flagged, the first is not. Without a sign: token-equal pass-through.',
   note='Trusted: cssparser tokenizer (denotation of a spelling; output tokens). Not asserted: the bare `layer` keyword, whether a second consecutive import is flagged, imports nested in blocks.', ref='4/C18'),
 'C19': dict(engine='gev-c19', technique='bounded-exhaustive exploration of multi-line / multi-byte stylesheets and :host rule trees; per-output-token source-map oracle derived from the model positions',
   text='C08 selector sheets (depth <= 1 quick / 2 thorough, wrapper chains <= 1) and all value-token pairs in 7 contexts, plain and with an astral comment line in front and multi-byte class names / strings, plus four line-breaking / multi-byte fillers (\\n, /*e-acute astral*/, \\r\\n, blank + multi-line comment + newline) at every gap; C17 rule trees (8 leaf kinds, depth <= 1) under every conversion option set, on one line and one rule per line. Every output token written through the token path must have a map entry at its real UTF-16 column whose source line / column is the start of its input token (closing bracket: own or opener; sign comment: the class it marks; synthesised [wx-host] tokens: inside the :host rule prelude), rewritten tokens carry the original spelling as name, entries are sorted, and the map is identical after JSON serialisation. Replayed wrappers of the low-priority output are exempt.',
   note='Trusted: cssparser tokenizer for output token boundaries, the sourcemap crate for decoding. Sheets whose token streams disagree with the reference rewrite are left to C08 / C17 and counted as skipped.', ref='4/C19'),
 'C20': dict(engine='gev-c20', technique='exhaustive enumeration of file sets x insertion orders x import_group splits under enumerated hash-key answers of the environment (getrandom shim), byte-for-byte comparison',
   text='Every non-empty subset of 5 (quick, <= 4 files) / 6 (thorough, <= 6 files) model templates with binding-map fields, slot scopes, imports / includes and inline + external scripts; every insertion order of its files, rotating script orders, every import_group bipartition in both directions; each under 64 (quick) / 768 (thorough) hash seeds, one process per seed, every HashMap instance in a process taking the next key of the seeded sequence. All artefacts (bundle, wx bundle, per-file generator object, runtime prelude, globals, script export, stringified text, dependency lists) must be one byte string per file set; three stylesheets with source maps likewise. The run measures, per file set, how many of the k! iteration orders of a probe map with the same keys the hash answers realised (all of them for k <= 4 in the quick tier).',
   note='Trusted: the LD_PRELOAD getrandom shim owns std RandomState keys (self-checked: same seed twice gives identical runs, different seeds give different probe orders). "Every process" is covered up to the iteration orders realised, which are reported.', ref='4/C20'),
 'C03': dict(engine='js-c03', technique='bounded-exhaustive enumeration of expression trees x data environments; generated code executed by V8 on a recording runtime and compared with V8 evaluating the fully parenthesised reference',
   text='Every expression tree of operator depth <= 2 (quick) / 3 (thorough) over 6 unary and 23 binary operators, ?:, static members (5 names incl. toString / constructor / __proto__), dynamic index, calls with 0-2 arguments, array literals with holes at every position and spreads, object literals (named, spread, shorthand), explicit parentheses, in every operand position; every number spelling (radices, exponents, beyond 2^53 / 2^63 / float range), string escape and keyword literal of the pool in 11 positions; each in three spellings (minimal parentheses, fully parenthesised, comments between tokens); under every assignment of a, b over a 20-value pool (c over 6 / 20). Equality is Object.is on primitives, structural with hole- and prototype-awareness on containers, same error class on throws. Failing cases are shrunk to a canonical minimal tree and environment before they are compared with the findings list.',
   note='Trusted: V8 (both sides). The reference deviates from plain JavaScript only in null-safe member reads and plain-function calls. Not asserted: evaluation order / short-circuit of sub-expressions with side effects; expressions the parser rejects at Error level.', ref='4/C03'),
 'C12': dict(engine='js-c12', technique='exhaustive sweep of Unicode scalar values x successors x embedding contexts through the real compiler and V8, identity oracle on the delivered string',
   text='Every scalar value below U+3000 plus block boundaries and surrogate / BOM / noncharacter / astral neighbours (quick), every one of the 1,112,064 scalar values (thorough), followed by each of 16 critical successors (digits, hex letters, both quotes, backslash, braces, ampersand, semicolon, u, x, newline), embedded in 15 markup contexts (double / single quoted attribute, class, style, id, slot, data-, data:, mark:, bind: and catch: handler, generic:, extra-attr:, worklet:, static text), as wx:key, template name and static template-is target (looked up), in three string-literal spellings inside expressions, as decimal / hex character references in attribute and text, plus all 2231 named character references. The string the executed code hands to the runtime must equal the denoted string code point for code point.',
   note='Trusted: V8; the spelling rules for characters a context cannot carry raw (&amp; &lt; &quot; &#39; &#123;, backslash escapes). Names in identifier positions are ASCII-only by the parser and are covered by C02 / C04.', ref='4/C12'),
 'C04': dict(engine='js-c04', technique='bounded-exhaustive enumeration of model templates x concrete-syntax variants x data environments; generated code run on a recording runtime, compared with a reference renderer that interprets the model',
   text='The model corpus (about 1300 templates quick, 3300 thorough): every text shape and every attribute family as a single node, as sibling pairs and under element / block / if / for parents; 44 control constructs (block, if / elif / else chains with comments and blanks between branches, for over array / object / string / number with default and renamed variables, keys, for+if, nested for, template definition and use with every data form incl. dynamic and missing targets, slots with static / dynamic names and values, slot-value scopes with aliases, block slot attributes, inline scripts before / after use and inside template definitions) around 4 body kinds; 12 multi-file constructs (include / import / external scripts with relative, parent and absolute paths, local-over-imported and later-over-earlier precedence); 17 expression forms at 26 binding positions; thorough adds every control construct inside every control construct. Each in 9 concrete-syntax variants (quote style, paired tags, padded / multi-line bindings, decimal / hex entity spelling, attributes on separate lines, newlines between nodes), under every environment of the value pool for the names used (exhaustive up to 300 / 600, pairwise cover beyond). The canonical tree (document order; virtual wrappers flattened; per-channel attribute records with normalised names) must equal the reference.',
   note='Trusted: V8, the recording runtime (substrate B; for-list iteration copied from RangeListManager.updateKeys), the reference renderer (documented semantics on the model). Not asserted: valueless class / style / id, a static wx:if string, class: / style: families, valueless slot values, order of setter calls within an element.', ref='4/C04'),
}

NOT_YET = {}

def main():
    props = [json.loads(l) for l in open('/verif/properties.jsonl')]
    checks = []
    na = []
    for p in props:
        pid = p['id']
        if pid in CHECKS:
            c = CHECKS[pid]
            checks.append({
                'property_id': pid,
                'quick_cmd': './check %s --tier quick' % pid,
                'thorough_cmd': './check %s --tier thorough' % pid,
                'evidence_file': 'evidence/%s.json' % pid,
                'replay_cmd_template': './check %s --replay {path}' % pid,
                'engine': c['engine'],
                'level_claimed': {'category': 'model_checking', 'text': c['text'], 'design_ref': 'DESIGN.md section ' + c['ref']},
                'level_note': c['note'],
                'technique': c['technique'],
            })
        else:
            na.append({'property_id': pid, 'reason': NOT_YET.get(pid, 'check not built yet in this session (bounded-exhaustive exploration is applicable, see DESIGN.md section 4); not claimed until its engine exists')})
    m = {
        'version': 1,
        'setup_cmd': 'mkdir -p .work .build evidence && gcc -shared -fPIC -O2 -o .build/getrandom_shim.so harness/shim/getrandom.c && cd harness && CARGO_NET_OFFLINE=true cargo build --release --offline',
        'hooks': {
            'guard': 'cargo feature `verif_hooks` (both compiler crates)',
            'enable': 'the harness crate depends on both compilers with features=["verif_hooks"]; nothing else enables it',
            'baseline_off_cmd': 'cd /repo && cargo test --workspace --no-fail-fast --offline',
            'source_commits': ['0450b72'],
            'add_only': True,
        },
        'engines': [
            {'name': 'js', 'path': 'js/', 'serves_properties': sorted(k for k in CHECKS if CHECKS[k]['engine'].startswith('js')), 'kind_free_text': 'JavaScript explorers (node 20 for the recording runtime, node 22 for the real TypeScript runtime): models, printers, reference interpreters; compile through `gev batch`'},
            {'name': 'gev', 'path': 'harness/', 'serves_properties': sorted(CHECKS), 'kind_free_text': 'Rust harness linking the real compiler crates from /repo: bounded-exhaustive explorers, JSON batch compile server for the JavaScript explorers'},
        ],
        'checks': checks,
        'not_applicable': na,
        'notes': 'All checks are bounded-exhaustive explorations of the real code (no sampling in any deciding step); VERIF_SEED is recorded only. Exit 2 = machinery failure, never a verdict.',
    }
    json.dump(m, open('/verif/MANIFEST.json', 'w'), indent=1, ensure_ascii=False)

main()
