#!/bin/bash
# usage: tools_benign.sh <patch> [Cxx...] — applies a change under which every property still holds to /repo, runs the
# quick tier of every (or the given) check, restores /repo. Any VIOLATION / MACHINERY line is a false alarm of the machinery.
# One line per check in .work/benign.log. Meant to run in a private mount namespace (see DESIGN 9.6).
cd /verif
PATCH=$1; shift
NAME=$(basename $(dirname $PATCH))
if [ -n "$(git -C /repo status --porcelain)" ]; then echo "$NAME /repo is not clean"; exit 2; fi
if ! git -C /repo apply $PATCH; then echo "$NAME PATCH-DOES-NOT-APPLY" | tee -a .work/benign.log; exit 2; fi
for p in ${@:-C01 C02 C03 C04 C05 C06 C07 C08 C09 C10 C11 C12 C13 C14 C15 C16 C17 C18 C19 C20}; do
  O=$(mktemp /tmp/benign.XXXXXX)
  ./check $p --tier quick > $O 2>&1; RC=$?
  echo "$NAME $p rc=$RC $(grep -a -E '^VIOLATION|^MACHINERY|^STALE' $O | head -2 | cut -c1-260 | tr '\n' ' ')" | tee -a .work/benign.log
  rm -f $O
done
git -C /repo checkout -- .
