#!/usr/bin/env python3
"""tools_keep_seed.py <seed-dir> <id> <check> <caught: yes|no|after-strengthening> <note>"""
import json, os, shutil, sys
src, sid, check, caught, note = sys.argv[1:6]
dst = '/verif/seeded/' + sid
os.makedirs(dst, exist_ok=True)
for f in os.listdir(src):
    if f.startswith('patch') or f.startswith('demo') or f == 'meta.json':
        shutil.copy(os.path.join(src, f), os.path.join(dst, f))
m = json.load(open(os.path.join(dst, 'meta.json')))
m['breaks_property'] = m.get('property')
m['confirmed'] = 'applied in a scratch worktree: cargo test --workspace --no-fail-fast --offline passed 84/84 with the change; demo_cmd failed with the change and passed without it (tools_confirm_seed.sh)'
m['check_run'] = 'git -C /repo apply patch.diff; ./check %s --tier quick; git -C /repo checkout -- . (tools_seed.sh)' % check
m['caught_by'] = check
m['caught'] = caught
m['note'] = note
json.dump(m, open(os.path.join(dst, 'meta.json'), 'w'), indent=1, ensure_ascii=False)
print('kept', dst)
