#!/bin/bash
# usage: tools_seed_validity.sh <worktree> <seed-id>...
# For seeds that the current checks do not report (or whose patch does not apply any more): does the seeded change still break
# anything on the CURRENT tree? Applies the patch in a scratch worktree of /repo's HEAD and runs the seed's own demonstration
# (its path rewritten to /verif/seeded/<id>/). One line per seed:
#   <id> APPLY-FAIL                      the patch needs porting (the code it touches was changed by a later fix)
#   <id> demo-with-change rc=0           the demonstration passes with the change: the change is dead on the current tree
#   <id> demo-with-change rc!=0          the change still breaks the property: the check must report it
W=$1; shift
cd $W || exit 2
for S in "$@"; do
  D=/verif/seeded/$S
  git checkout -q -- . ; git clean -fdq -e target
  P=$D/patch.diff; [ -f $D/patch.ported.diff ] && P=$D/patch.ported.diff
  if ! git apply $P 2>/dev/null; then echo "$S APPLY-FAIL"; continue; fi
  CMD=$(python3 -c "
import json,re,sys
c=json.load(open('$D/meta.json'))['demo_cmd']
print(re.sub(r'/tmp/seed\d*-c\d\d-[a-z]', '$D', c))")
  bash -c "$CMD" > /tmp/validity_$S.out 2>&1; RC=$?
  echo "$S demo-with-change rc=$RC"
done
git checkout -q -- . ; git clean -fdq -e target
