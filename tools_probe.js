#!/usr/bin/env node
// usage: tools_probe.js '<template text>' [want...]   (default: stringify groups)
const C = require('/verif/js/lib/common')
const src = process.argv[2]
const want = process.argv.slice(3).length ? process.argv.slice(3) : ['stringify']
const r = C.compileBatch([{ id: 0, files: [['f', src]], want }], 1)[0]
console.log('diags', JSON.stringify(r.diags.f.map((d) => d.kind + ':' + d.level + '@' + d.start)))
for (const k of Object.keys(r.outputs)) console.log(k, '=>', r.outputs[k].ok !== undefined ? r.outputs[k].ok : r.outputs[k])
if (r.panic) console.log('PANIC', r.panic)
