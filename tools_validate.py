#!/usr/bin/env python3-vt
"""Validate MANIFEST.json and every evidence file against the schemas."""
import json, sys, glob, jsonschema
ok = True
m = json.load(open('/verif/MANIFEST.json'))
jsonschema.validate(m, json.load(open('/root/.vp/MANIFEST.schema.json')))
es = json.load(open('/root/.vp/EVIDENCE.schema.json'))
for c in m['checks']:
    p = '/verif/' + c['evidence_file']
    try:
        jsonschema.validate(json.load(open(p)), es)
    except Exception as e:
        ok = False
        print('BAD', p, str(e)[:300])
props = [json.loads(l)['id'] for l in open('/verif/properties.jsonl')]
claimed = {c['property_id'] for c in m['checks']}
na = {n['property_id'] for n in m.get('not_applicable', [])}
for p in props:
    if (p in claimed) == (p in na):
        ok = False
        print('property', p, 'claimed' if p in claimed else 'missing', 'and in not_applicable' if p in na else '')
print('valid' if ok else 'INVALID')
sys.exit(0 if ok else 1)
