#!/bin/bash
# usage: tools_eval_all.sh <seed-dir>... — applies each seed to /repo, runs the property's quick check, restores /repo; log on stdout
for S in "$@"; do
  B=$(basename $S)
  P=$(echo $B | sed -E 's/seed[234]-(c[0-9]+)-.*/\1/' | tr c C)
  echo "=== $B ($P)"
  /verif/tools_seed.sh $S/patch.diff $P quick 2>&1 | grep -a -v "^KNOWN-FINDING" | cut -c1-260 | head -4
done
