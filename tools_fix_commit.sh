#!/bin/bash
# usage: tools_fix_commit.sh <message-file>  — runs the repo test suite; commits all changes in /repo only if 84 pass
cd /repo || exit 2
R=$(cargo test --workspace --no-fail-fast --offline 2>&1 | grep -E "^test result" | awk '{p+=$4; f+=$6} END {print p" "f}')
echo "tests: passed failed = $R"
if [ "$R" != "84 0" ]; then echo "NOT COMMITTED"; cargo test --workspace --offline 2>&1 | grep -E "^---- |left:|right:" | head -8; exit 1; fi
git commit -qa -F "$1" && git log --oneline | head -1
