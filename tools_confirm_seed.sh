#!/bin/bash
# usage: tools_confirm_seed.sh <seed-dir> <worktree>
# confirms: patch applies, test suite passes with it, demo fails with it, demo passes without it.
S=$1; W=$2
cd $W || exit 2
git checkout -q -- . ; git clean -fdq -e target
CMD=$(python3 -c "import json,sys; print(json.load(open('$S/meta.json'))['demo_cmd'])")
git apply $S/patch.diff || { echo "APPLY-FAIL"; exit 1; }
T=$(cargo test --workspace --no-fail-fast --offline 2>&1 | grep -E "^test result" | awk '{p+=$4; f+=$6} END {print p" passed "f" failed"}')
bash -c "$CMD" > /tmp/demo_with.out 2>&1; RW=$?
git checkout -q -- . ; git clean -fdq -e target
bash -c "$CMD" > /tmp/demo_without.out 2>&1; RO=$?
git checkout -q -- . ; git clean -fdq -e target
echo "$S: suite-with-change: $T; demo-with-change rc=$RW; demo-without rc=$RO"
