/* LD_PRELOAD shim: answers getrandom(2) deterministically from VERIF_HASH_SEED, so that the keys
 * of Rust's std RandomState (and thereby HashMap iteration order) are a function of the seed. */
#define _GNU_SOURCE
#include <stddef.h>
#include <stdlib.h>
#include <string.h>
#include <sys/types.h>
ssize_t getrandom(void *buf, size_t len, unsigned int flags) {
  (void)flags;
  const char *s = getenv("VERIF_HASH_SEED");
  unsigned long long x = s ? strtoull(s, 0, 10) : 0;
  unsigned char *b = buf;
  for (size_t i = 0; i < len; i++) {
    x = x * 6364136223846793005ULL + 1442695040888963407ULL;
    b[i] = (unsigned char)(x >> 56);
  }
  return (ssize_t)len;
}
