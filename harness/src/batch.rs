//! JSON batch interface used by the JavaScript explorers.
//!
//! input:  {"jobs":[{"id":..,"files":[[path,src],..],"scripts":[[path,src],..],"want":["groups","gen","wx","runtime","stringify","ast"]}]}
//! output: [{"id":..,"outputs":{..},"diags":{..},"panic":null|{..}}]

use crate::common::*;
use crate::tmpl::{self, Want};
use serde_json::{json, Value};
use std::sync::Mutex;

pub fn run(input: &str, output: &str) {
    silence_panics();
    let v: Value = serde_json::from_slice(&std::fs::read(input).expect("read batch input")).expect("batch json");
    let jobs = v["jobs"].as_array().expect("jobs").clone();
    let results: Mutex<Vec<(u64, Value)>> = Mutex::new(Vec::with_capacity(jobs.len()));
    let jobs_ref = &jobs;
    let results_ref = &results;
    let nthreads = v.get("threads").and_then(|x| x.as_u64()).map(|x| x as usize).unwrap_or_else(threads);
    let _ = par_run(jobs.len() as u64, nthreads, move |i, _rep| {
        let job = &jobs_ref[i as usize];
        let r = run_job(job);
        results_ref.lock().unwrap().push((i, r));
    });
    let mut rs = results.into_inner().unwrap();
    rs.sort_by_key(|x| x.0);
    let arr: Vec<Value> = rs.into_iter().map(|x| x.1).collect();
    std::fs::write(output, serde_json::to_vec(&arr).unwrap()).expect("write batch output");
}

fn pairs(v: Option<&Value>) -> Vec<(String, String)> {
    v.and_then(|x| x.as_array())
        .map(|a| {
            a.iter()
                .map(|p| (p[0].as_str().unwrap_or("").to_string(), p[1].as_str().unwrap_or("").to_string()))
                .collect()
        })
        .unwrap_or_default()
}

fn r_ok(r: &Result<Value, String>) -> Option<Value> {
    r.as_ref().ok().cloned()
}

pub fn run_job(job: &Value) -> Value {
    let files = pairs(job.get("files"));
    let scripts = pairs(job.get("scripts"));
    let wants: Vec<&str> = job.get("want").and_then(|x| x.as_array()).map(|a| a.iter().filter_map(|x| x.as_str()).collect()).unwrap_or_default();
    let has = |w: &str| wants.contains(&w);
    let want = Want { per_file: has("gen"), groups: has("groups"), wx: has("wx"), runtime: has("runtime"), stringify: has("stringify") };
    let run = tmpl::compile_with_extras(&files, &scripts, want, 0, job.get("extra").and_then(|x| x.as_str()), job.get("import_extra").and_then(|x| x.as_str()));
    let mut r = tmpl::run_to_json(&run);
    r["id"] = job.get("id").cloned().unwrap_or(Value::Null);
    if has("deps") {
        // dependency queries of the group API (on a group built the same way)
        let mut group = glass_easel_template_compiler::TmplGroup::new();
        let dr = guarded(|| {
            for (p, s) in &files {
                group.add_tmpl(p, s);
            }
            for (p, s) in &scripts {
                group.add_script(p, s);
            }
            let mut deps = serde_json::Map::new();
            for (p, _) in &files {
                let direct: Vec<String> = group.direct_dependencies(p).map(|x| x.collect()).unwrap_or_default();
                let script: Vec<String> = group.script_dependencies(p).map(|x| x.collect()).unwrap_or_default();
                deps.insert(p.clone(), json!({"direct": direct, "scripts": script}));
            }
            Value::Object(deps)
        });
        r["deps"] = match r_ok(&dr) { Some(v) => v, None => json!({"panic": true}) };
    }
    if let Some(paths) = job.get("paths").and_then(|x| x.as_array()) {
        // probes of the crate-private path helpers (hook H3)
        let out: Vec<Value> = paths
            .iter()
            .map(|p| {
                let base = p[0].as_str().unwrap_or("");
                let rel = p[1].as_str().unwrap_or("");
                json!({
                    "resolve": guarded(|| glass_easel_template_compiler::verif_hooks::resolve(base, rel)).ok(),
                    "normalize_rel": guarded(|| glass_easel_template_compiler::verif_hooks::normalize(rel)).ok(),
                    "normalize_base": guarded(|| glass_easel_template_compiler::verif_hooks::normalize(base)).ok(),
                })
            })
            .collect();
        r["paths"] = Value::Array(out);
    }
    if has("ast") {
        let mut asts = serde_json::Map::new();
        for (p, s) in &files {
            match guarded(|| crate::ast::dump(p, s)) {
                Ok(v) => {
                    asts.insert(p.clone(), v);
                }
                Err(m) => {
                    asts.insert(p.clone(), json!({"panic": m}));
                }
            }
        }
        r["ast"] = Value::Object(asts);
    }
    r
}
