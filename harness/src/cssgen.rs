//! Enumerable families of well-formed stylesheets (index -> sheet).

use crate::cssmodel::*;

pub const SIMPLE_ATOMS: u64 = 8;
pub const FUNCS: &[&str] = &[":not(", ":is(", ":where(", ":has(", "::slotted(", ":nth-child(", ":host(", ":host-context("];
pub const COMBINATORS: &[&str] = &[" ", ">", "+", "~"];

pub fn atoms_count(d: u32) -> u64 {
    if d == 0 {
        SIMPLE_ATOMS
    } else {
        SIMPLE_ATOMS + FUNCS.len() as u64 * sel_count(d - 1)
    }
}

/// complex selectors with function nesting depth <= d
pub fn sel_count(d: u32) -> u64 {
    atoms_count(d) * 21
}

fn push_simple(sh: &mut Sheet, k: u64, ctx: &str) {
    match k {
        0 => {
            sh.plain(".", ctx);
            sh.push("c", Role::Class, ctx);
        }
        1 => sh.plain("t", ctx),
        2 => sh.plain("#i", ctx),
        3 => {
            sh.plain("[", ctx);
            sh.plain("a", ctx);
            sh.plain("=", ctx);
            sh.plain("\".c\"", ctx);
            sh.plain("]", ctx);
        }
        4 => {
            sh.plain(":", ctx);
            sh.plain("hover", ctx);
        }
        5 => sh.plain("*", ctx),
        // class names that already look prefixed (for the prefixes "p" and "")
        6 => {
            sh.plain(".", ctx);
            sh.push("p--q", Role::Class, ctx);
        }
        7 => {
            sh.plain(".", ctx);
            sh.push("--x", Role::Class, ctx);
        }
        _ => unreachable!(),
    }
}

fn push_atom(sh: &mut Sheet, d: u32, idx: u64, base_ctx: &str, fdepth: u32) {
    let ctx = format!("{}/fn-depth={}", base_ctx, fdepth);
    if idx < SIMPLE_ATOMS {
        push_simple(sh, idx, &ctx);
        return;
    }
    let idx = idx - SIMPLE_ATOMS;
    let inner = sel_count(d - 1);
    let f = (idx / inner) as usize;
    let rest = idx % inner;
    let name = FUNCS[f];
    if name.starts_with("::") {
        sh.plain(":", &ctx);
        sh.plain(":", &ctx);
        sh.plain(&name[2..], &ctx);
    } else {
        sh.plain(":", &ctx);
        sh.plain(&name[1..], &ctx);
    }
    if name == ":nth-child(" {
        let c2 = format!("{}/fn-depth={}", base_ctx, fdepth + 1);
        sh.micro_span(Micro::Nth, &["2n", "+1"], &c2);
        sh.ws(false, &c2);
        sh.plain("of", &c2);
        sh.ws(false, &c2);
    }
    push_sel(sh, d - 1, rest, base_ctx, fdepth + 1);
    sh.plain(")", &ctx);
}

/// complex selector number `idx` of depth <= d
pub fn push_sel(sh: &mut Sheet, d: u32, idx: u64, base_ctx: &str, fdepth: u32) {
    let a = atoms_count(d);
    let ctx = format!("{}/fn-depth={}", base_ctx, fdepth);
    if idx < a {
        push_atom(sh, d, idx, base_ctx, fdepth);
        return;
    }
    let idx = idx - a;
    // 20 * a combinations: side (base first / base last) x base (2) x joiner (5: none = one compound selector, then the 4 combinators) x atom
    let atom = idx % a;
    let k = idx / a;
    let mut comb = (k % 5) as usize;
    let base = (k / 5) % 2;
    let side = k / 10;
    // two simple selectors can be written next to each other unless the second one is a type selector or `*`
    if comb == 0 && ((side == 0 && (atom == 1 || atom == 5)) || (side == 1 && base == 1)) {
        comb = 1;
    }
    let push_comb = |sh: &mut Sheet| {
        if comb == 0 {
            // compound selector: nothing between the two
        } else if comb == 1 {
            sh.ws(true, &ctx);
        } else {
            sh.plain(COMBINATORS[comb - 1], &ctx);
        }
    };
    if side == 0 {
        push_simple(sh, base, &ctx);
        push_comb(sh);
        push_atom(sh, d, atom, base_ctx, fdepth);
    } else {
        push_atom(sh, d, atom, base_ctx, fdepth);
        push_comb(sh);
        push_simple(sh, base, &ctx);
    }
}

/// rule-bearing wrappers: (name, pieces of the opening up to and including `{`)
pub const WRAPPERS: &[&str] = &["@media", "@supports", "@layer", "@container", "@scope", "@document", "@MEDIA", "@supports-nested", "@-moz-document"];

pub fn push_wrapper_open(sh: &mut Sheet, w: usize) {
    let ctx = format!("prelude:{}", WRAPPERS[w]);
    match w {
        0 => {
            sh.plain("@media", &ctx);
            sh.ws(false, &ctx);
            sh.plain("screen", &ctx);
            sh.ws(false, &ctx);
            sh.plain("and", &ctx);
            sh.ws(false, &ctx);
            sh.plain("(", &ctx);
            sh.plain("min-width", &ctx);
            sh.plain(":", &ctx);
            sh.plain("1px", &ctx);
            sh.plain(")", &ctx);
        }
        1 => {
            sh.plain("@supports", &ctx);
            sh.ws(false, &ctx);
            sh.plain("(", &ctx);
            sh.plain("a", &ctx);
            sh.plain(":", &ctx);
            sh.plain("b", &ctx);
            sh.plain(")", &ctx);
            // a function directly in the prelude (not inside parentheses) is selector context as well
            sh.ws(false, &ctx);
            sh.plain("and", &ctx);
            sh.ws(false, &ctx);
            sh.plain("selector(", &ctx);
            sh.plain(".", &ctx);
            sh.push("q", Role::Class, &ctx);
            sh.ws(true, &ctx);
            sh.plain(":", &ctx);
            sh.plain("is(", &ctx);
            sh.plain(".", &ctx);
            sh.push("r", Role::Class, &ctx);
            sh.plain(")", &ctx);
            sh.plain(")", &ctx);
        }
        2 => {
            sh.plain("@layer", &ctx);
            sh.ws(false, &ctx);
            sh.plain("x", &ctx);
        }
        3 => {
            sh.plain("@container", &ctx);
            sh.ws(false, &ctx);
            sh.plain("(", &ctx);
            sh.plain("width", &ctx);
            sh.plain(">", &ctx);
            sh.plain("1px", &ctx);
            sh.plain(")", &ctx);
        }
        4 => {
            sh.plain("@scope", &ctx);
            sh.ws(false, &ctx);
            sh.plain("(", &ctx);
            sh.plain(".", &ctx);
            sh.push("s", Role::Class, &ctx);
            sh.plain(")", &ctx);
            sh.ws(false, &ctx);
            sh.plain("to", &ctx);
            sh.ws(false, &ctx);
            sh.plain("(", &ctx);
            sh.plain(".", &ctx);
            sh.push("e", Role::Class, &ctx);
            sh.plain(")", &ctx);
        }
        5 => {
            sh.plain("@document", &ctx);
            sh.ws(false, &ctx);
            sh.plain("url(x)", &ctx);
        }
        6 => {
            // at-rule names are ASCII case-insensitive
            sh.plain("@MEDIA", &ctx);
            sh.ws(false, &ctx);
            sh.plain("print", &ctx);
        }
        8 => {
            // (vendor-prefixed names are the same rules)
            sh.plain("@-moz-document", &ctx);
            sh.ws(false, &ctx);
            sh.plain("url-prefix(", &ctx);
            sh.plain(")", &ctx);
        }
        7 => {
            // plain parentheses nested inside the parentheses of a prelude are still selector context
            sh.plain("@supports", &ctx);
            sh.ws(false, &ctx);
            sh.plain("not", &ctx);
            sh.ws(false, &ctx);
            sh.plain("(", &ctx);
            sh.plain("(", &ctx);
            sh.plain("selector(", &ctx);
            sh.plain(".", &ctx);
            sh.push("n", Role::Class, &ctx);
            sh.ws(true, &ctx);
            sh.plain(".", &ctx);
            sh.push("o", Role::Class, &ctx);
            sh.plain(")", &ctx);
            sh.plain(")", &ctx);
            sh.ws(true, &ctx);
            sh.plain("or", &ctx);
            sh.ws(true, &ctx);
            sh.plain("(", &ctx);
            sh.plain("(", &ctx);
            sh.plain("a", &ctx);
            sh.plain(":", &ctx);
            sh.plain("b", &ctx);
            sh.plain(")", &ctx);
            sh.plain(")", &ctx);
            sh.plain(")", &ctx);
        }
        _ => unreachable!(),
    }
    sh.plain("{", &ctx);
}

/// wrapper chains of length <= depth: index 0 = none
pub fn chain_count(depth: u32) -> u64 {
    let w = WRAPPERS.len() as u64;
    let mut total = 0;
    let mut p = 1;
    for _ in 0..=depth {
        total += p;
        p *= w;
    }
    total
}

pub fn chain_unrank(mut i: u64, depth: u32) -> Vec<usize> {
    let w = WRAPPERS.len() as u64;
    let mut len = 0;
    let mut p = 1;
    loop {
        if i < p {
            break;
        }
        i -= p;
        p *= w;
        len += 1;
        assert!(len <= depth);
    }
    let mut out = vec![0usize; len as usize];
    for k in (0..len as usize).rev() {
        out[k] = (i % w) as usize;
        i /= w;
    }
    out
}

pub fn selector_sheet(d: u32, idx: u64, chain: &[usize]) -> Sheet {
    let mut sh = Sheet::new();
    let mut base = String::from("selector");
    for w in chain {
        push_wrapper_open(&mut sh, *w);
        base.push_str("/in=");
        base.push_str(WRAPPERS[*w]);
    }
    push_sel(&mut sh, d, idx, &base, 0);
    sh.plain("{", "rule");
    sh.plain("k", "decl");
    sh.plain(":", "decl");
    sh.plain("v", "value");
    sh.plain("}", "rule");
    for _ in chain {
        sh.plain("}", "wrapper");
    }
    sh
}

// ---------------------------------------------------------------------------------------------
// statement at-rules whose prelude carries conditions: `@import "a" <conditions>;` compiled WITHOUT an import sign (the rule passes
// through the generic at-rule path), followed by an ordinary rule. Every sequence of condition pieces up to a length.

pub const STATEMENT_PIECES: &[&str] = &["layer", "layer(a.b)", "supports(selector(.c:not(.d)))", "supports((k:v))", "screen", "(min-width:1px)", "supports(selector(.e .f))", "and"];

fn push_statement_piece(sh: &mut Sheet, k: usize, ctx: &str) {
    match k {
        0 => sh.plain("layer", ctx),
        1 => {
            // a dot in a layer name does not start a class name
            for t in ["layer(", "a", ".", "b", ")"] {
                sh.plain(t, ctx);
            }
        }
        2 => {
            sh.plain("supports(", ctx);
            sh.plain("selector(", ctx);
            sh.plain(".", ctx);
            sh.push("c", Role::Class, ctx);
            sh.plain(":", ctx);
            sh.plain("not(", ctx);
            sh.plain(".", ctx);
            sh.push("d", Role::Class, ctx);
            sh.plain(")", ctx);
            sh.plain(")", ctx);
            sh.plain(")", ctx);
        }
        3 => {
            for t in ["supports(", "(", "k", ":", "v", ")", ")"] {
                sh.plain(t, ctx);
            }
        }
        4 => sh.plain("screen", ctx),
        5 => {
            for t in ["(", "min-width", ":", "1px", ")"] {
                sh.plain(t, ctx);
            }
        }
        6 => {
            sh.plain("supports(", ctx);
            sh.plain("selector(", ctx);
            sh.plain(".", ctx);
            sh.push("e", Role::Class, ctx);
            sh.ws(true, ctx);
            sh.plain(".", ctx);
            sh.push("f", Role::Class, ctx);
            sh.plain(")", ctx);
            sh.plain(")", ctx);
        }
        7 => sh.plain("and", ctx),
        _ => unreachable!(),
    }
}

/// number of piece sequences of length 1..=max_len
pub fn statement_count(max_len: u32) -> u64 {
    let n = STATEMENT_PIECES.len() as u64;
    (1..=max_len).map(|l| n.pow(l)).sum()
}

/// `head`: 0 = `@import "a"`, 1 = `@IMPORT url(a)`, 2 = an unknown statement at-rule `@x`
pub fn statement_sheet(head: usize, mut i: u64, max_len: u32) -> Sheet {
    let n = STATEMENT_PIECES.len() as u64;
    let mut len = 1u32;
    loop {
        let c = n.pow(len);
        if i < c {
            break;
        }
        i -= c;
        len += 1;
        assert!(len <= max_len);
    }
    let mut sh = Sheet::new();
    let ctx = "prelude:statement";
    match head {
        0 => {
            sh.plain("@import", ctx);
            sh.ws(false, ctx);
            sh.plain("\"a\"", ctx);
        }
        1 => {
            sh.plain("@IMPORT", ctx);
            sh.ws(false, ctx);
            sh.plain("url(a)", ctx);
        }
        _ => {
            sh.plain("@x", ctx);
            sh.ws(false, ctx);
            sh.plain("y", ctx);
        }
    }
    for _ in 0..len {
        sh.ws(false, ctx);
        push_statement_piece(&mut sh, (i % n) as usize, ctx);
        i /= n;
    }
    sh.plain(";", ctx);
    // an ordinary rule behind it: whatever state the prelude left must not leak
    sh.plain(".", "selector");
    sh.push("z", Role::Class, "selector");
    sh.ws(true, "selector");
    sh.plain(".", "selector");
    sh.push("y", Role::Class, "selector");
    sh.plain("{", "rule");
    sh.plain("k", "decl");
    sh.plain(":", "decl");
    sh.plain("v", "value");
    sh.plain("}", "rule");
    sh
}

// ---------------------------------------------------------------------------------------------
// value-token adjacency

/// (pieces, is_rpx) — a "kind" is one or more pieces that belong together
pub struct Kind {
    pub name: &'static str,
    pub pieces: &'static [&'static str],
    pub micro: Option<Micro>,
}

pub const KINDS: &[Kind] = &[
    Kind { name: "ident", pieces: &["a"], micro: None },
    Kind { name: "custom-ident", pieces: &["--x"], micro: None },
    Kind { name: "function", pieces: &["f(", "b", ")"], micro: None },
    Kind { name: "var", pieces: &["var(", "--x", ")"], micro: None },
    Kind { name: "at-keyword", pieces: &["@k"], micro: None },
    Kind { name: "hash-color", pieces: &["#fff"], micro: None },
    Kind { name: "hash-digit", pieces: &["#1a"], micro: None },
    Kind { name: "hash-e", pieces: &["#1e3"], micro: None },
    Kind { name: "string-dq", pieces: &["\"s t\""], micro: None },
    Kind { name: "string-sq", pieces: &["'s\"t'"], micro: None },
    Kind { name: "url", pieces: &["url(x.png)"], micro: None },
    Kind { name: "url-quoted", pieces: &["url(", "\"x y\"", ")"], micro: None },
    Kind { name: "comma", pieces: &[","], micro: None },
    Kind { name: "slash", pieces: &["/"], micro: None },
    Kind { name: "asterisk", pieces: &["*"], micro: None },
    Kind { name: "plus", pieces: &["+"], micro: None },
    Kind { name: "minus", pieces: &["-"], micro: None },
    Kind { name: "dot", pieces: &["."], micro: None },
    Kind { name: "colon", pieces: &[":"], micro: None },
    Kind { name: "bang", pieces: &["!"], micro: None },
    Kind { name: "equals", pieces: &["="], micro: None },
    Kind { name: "gt", pieces: &[">"], micro: None },
    Kind { name: "lt", pieces: &["<"], micro: None },
    Kind { name: "tilde", pieces: &["~"], micro: None },
    Kind { name: "bar", pieces: &["|"], micro: None },
    Kind { name: "percent-delim", pieces: &["%"], micro: None },
    Kind { name: "question", pieces: &["?"], micro: None },
    Kind { name: "amp", pieces: &["&"], micro: None },
    Kind { name: "int", pieces: &["1"], micro: None },
    Kind { name: "int-7-digits", pieces: &["1234567"], micro: None },
    Kind { name: "int-10-digits", pieces: &["2147483647"], micro: None },
    Kind { name: "px-7-digits", pieces: &["7654321px"], micro: None },
    Kind { name: "percentage-7-digits", pieces: &["1234567%"], micro: None },
    Kind { name: "neg-int", pieces: &["-1"], micro: None },
    Kind { name: "neg-int-7-digits", pieces: &["-1234567"], micro: None },
    Kind { name: "neg-px-7-digits", pieces: &["-3000005px"], micro: None },
    Kind { name: "ident-double-dash", pieces: &["--"], micro: None },
    Kind { name: "pos-int", pieces: &["+1"], micro: None },
    Kind { name: "decimal", pieces: &["1.5"], micro: None },
    Kind { name: "leading-dot", pieces: &[".5"], micro: None },
    Kind { name: "exponent", pieces: &["1e3"], micro: None },
    Kind { name: "percentage", pieces: &["50%"], micro: None },
    Kind { name: "px", pieces: &["1px"], micro: None },
    Kind { name: "rpx", pieces: &["75rpx"], micro: None },
    Kind { name: "neg-rpx", pieces: &["-1.5rpx"], micro: None },
    Kind { name: "pos-rpx", pieces: &["+15rpx"], micro: None },
    Kind { name: "rpx-8-digits-upper", pieces: &["12345678RPX"], micro: None },
    Kind { name: "dim-non-ascii-unit", pieces: &["2度"], micro: None },
    Kind { name: "dim-astral-unit", pieces: &["1.5😀"], micro: None },
    Kind { name: "dim-e", pieces: &["1e"], micro: None },
    Kind { name: "dim-exp-unit", pieces: &["1e1m"], micro: None },
    // a unit that starts with an escaped `e` followed by a digit: written without the escape it is an exponent
    Kind { name: "dim-escaped-e-digit-unit", pieces: &["1\\65 5"], micro: None },
    Kind { name: "dim-escaped-e-minus-unit", pieces: &["2\\45 -3px"], micro: None },
    Kind { name: "int-beyond-i32", pieces: &["2147483648"], micro: None },
    Kind { name: "decimal-8-digits", pieces: &["1234567.5px"], micro: None },
    Kind { name: "unicode-range", pieces: &["U", "+26"], micro: Some(Micro::UnicodeRange) },
    Kind { name: "unicode-range-span", pieces: &["u", "+0", "-7F"], micro: Some(Micro::UnicodeRange) },
    Kind { name: "unicode-range-exp", pieces: &["U", "+1E3"], micro: Some(Micro::UnicodeRange) },
    Kind { name: "unicode-range-zeros", pieces: &["U", "+0025", "-00FF"], micro: Some(Micro::UnicodeRange) },
    Kind { name: "unicode-range-wild", pieces: &["U", "+4", "?", "?"], micro: Some(Micro::UnicodeRange) },
    Kind { name: "escaped-ident", pieces: &["\\31 a"], micro: None },
    Kind { name: "escaped-dot", pieces: &["a\\.b"], micro: None },
    // an identifier that the printer writes with an escape at its end (the blank that ends the escape belongs to the name)
    Kind { name: "escaped-ident-ends-in-escape", pieces: &["\\31 "], micro: None },
    Kind { name: "paren-block", pieces: &["(", "a", ")"], micro: None },
    Kind { name: "square-block", pieces: &["[", "a", "]"], micro: None },
    Kind { name: "curly-block", pieces: &["{", "a", "}"], micro: None },
    Kind { name: "important", pieces: &["!", "important"], micro: None },
    Kind { name: "cdo", pieces: &["<!--"], micro: None },
    Kind { name: "cdc", pieces: &["-->"], micro: None },
    Kind { name: "include-match", pieces: &["~="], micro: None },
    Kind { name: "dash-match", pieces: &["|="], micro: None },
    Kind { name: "prefix-match", pieces: &["^="], micro: None },
    Kind { name: "suffix-match", pieces: &["$="], micro: None },
    Kind { name: "substring-match", pieces: &["*="], micro: None },
    Kind { name: "class-like", pieces: &[".", "c"], micro: None },
    Kind { name: "hash-delim", pieces: &["#"], micro: None },
    Kind { name: "at-delim", pieces: &["@"], micro: None },
];

pub const VALUE_CONTEXTS: &[(&str, &[&str], &[&str])] = &[
    ("declaration-value", &[".", "a", "{", "k", ":"], &["}"]),
    ("custom-property", &[".", "a", "{", "--p", ":"], &["}"]),
    ("calc", &[".", "a", "{", "k", ":", "calc("], &[")", "}"]),
    // (contexts whose name starts with "calc" keep the blanks around + and -: parentheses, functions and
    //  another calc() nested in calc(), after a nested block, and the upper-case spelling)
    ("calc-paren", &[".", "a", "{", "k", ":", "calc(", "("], &[")", "*", "2", ")", "}"]),
    ("calc-function", &[".", "a", "{", "k", ":", "calc(", "min("], &[")", ")", "}"]),
    ("calc-calc", &[".", "a", "{", "k", ":", "calc(", "1px", " ", "+", " ", "calc("], &[")", ")", "}"]),
    ("calc-after-paren", &[".", "a", "{", "k", ":", "calc(", "(", "1px", ")"], &[")", "}"]),
    ("calc-upper", &[".", "a", "{", "k", ":", "CALC("], &[")", "}"]),
    // (the other math functions hold calculations as well)
    ("calc-like-min", &[".", "a", "{", "k", ":", "min("], &[",", "5px", ")", "}"]),
    ("calc-like-clamp-upper", &[".", "a", "{", "k", ":", "CLAMP(", "1px", ","], &[",", "9px", ")", "}"]),
    ("calc-like-round-in-function", &[".", "a", "{", "k", ":", "f(", "round("], &[")", ")", "}"]),
    ("calc-like-vendor-prefix", &[".", "a", "{", "k", ":", "-webkit-calc("], &[")", "}"]),
    ("function-arg", &[".", "a", "{", "k", ":", "f("], &[")", "}"]),
    ("media-feature", &["@media", " ", "(", "min-width", ":"], &[")", "{", "}"]),
    // (a calculation inside the parentheses of an at-rule prelude)
    ("calc-in-media-feature", &["@media", " ", "(", "min-width", ":", "calc("], &[")", ")", "{", "}"]),
    ("calc-in-supports-media-feature", &["@supports", " ", "(", "k", ":", "calc(", "("], &[")", ")", ")", "{", "}"]),
    ("keyframes", &["@keyframes", " ", "n", "{", "50%", "{", "k", ":"], &["}", "}"]),
    ("font-face", &["@font-face", "{", "unicode-range", ":"], &["}"]),
];

fn push_kind(sh: &mut Sheet, k: &Kind, ctx: &str, in_calc: bool) {
    let _ = in_calc;
    if let Some(m) = k.micro {
        sh.micro_span(m, k.pieces, ctx);
        return;
    }
    for p in k.pieces {
        if k.name == "class-like" && *p == "c" && ctx.ends_with("media-feature") {
            // at-rule prelude blocks are selector context for class names (C09)
            sh.push(p, Role::Class, ctx);
        } else if p.ends_with("rpx") || p.ends_with("RPX") {
            sh.push(p, Role::Rpx, ctx);
        } else {
            sh.plain(p, ctx);
        }
    }
}

/// A sheet with the kinds `ks` in value context `c`; `ws[i]` = white space before kind i (i >= 1).
pub fn value_sheet(c: usize, ks: &[usize], ws: &[bool]) -> Sheet {
    let (name, pre, suf) = VALUE_CONTEXTS[c];
    let mut sh = Sheet::new();
    for (pi, p) in pre.iter().enumerate() {
        if *p == " " {
            // (only the blanks next to + and - carry meaning; the blank after an at-keyword does not)
            let pm = |j: usize| pre.get(j).map_or(false, |x| *x == "+" || *x == "-");
            sh.ws(name.starts_with("calc") && (pm(pi + 1) || (pi > 0 && pm(pi - 1))), "prefix");
        } else if *p == "a" && pre[0] == "." {
            sh.push("a", Role::Class, "prefix");
        } else {
            sh.plain(p, "prefix");
        }
    }
    let in_calc = name.starts_with("calc");
    // <urange> only exists in the unicode-range descriptor of @font-face
    if name != "font-face" && ks.iter().any(|k| KINDS[*k].micro == Some(Micro::UnicodeRange)) {
        return Sheet::new();
    }
    for (i, k) in ks.iter().enumerate() {
        if i > 0 && ws[i] {
            // the blanks around + and - carry meaning in calc() and in every value that may be substituted into one
            // (custom properties, var() fallbacks, arguments of functions): they are kept in every declaration value
            // (a media feature is written by the selector-aware routine, where nothing is promised next to a curly block)
            let curly = |x: usize| KINDS[x].name == "curly-block";
            let must = (in_calc || name != "media-feature")
                && !(name.ends_with("media-feature") && (curly(ks[i - 1]) || curly(*k)))
                && (is_pm(&KINDS[ks[i - 1]]) || is_pm(&KINDS[*k]));
            sh.ws(must, name);
        }
        push_kind(&mut sh, &KINDS[*k], name, in_calc);
    }
    for p in suf.iter() {
        sh.plain(p, "suffix");
    }
    if name.ends_with("media-feature") {
        // at-rule prelude blocks are selector context: an identifier directly after a dot is a class name
        for i in 1..sh.pieces.len() {
            if sh.pieces[i - 1].text == "." && sh.pieces[i - 1].ctx == name && sh.pieces[i].role == Role::Plain && sh.pieces[i].ctx == name {
                let f = flatten(&sh.pieces[i].text);
                if f.len() == 1 && matches!(f[0].t, T::Ident(_)) {
                    sh.pieces[i].role = Role::Class;
                }
            }
        }
    }
    sh
}

fn is_pm(k: &Kind) -> bool {
    k.name == "plus" || k.name == "minus"
}

// ---------------------------------------------------------------------------------------------
// white space / comment variants: insert a filler at gap g of a sheet

pub const FILLERS: &[&str] = &["/*c*/", " ", "\n", " /*c*/ ", "\t\n ", "/*c*/ ", " /*c*/"];

/// Returns the sheet with `filler` inserted before piece `g` (as comment / blank pieces that carry
/// no meaning). The caller must discard the variant when it does not tokenise as intended.
pub fn with_filler(sh: &Sheet, g: usize, filler: usize) -> Sheet {
    let mut out = Sheet::new();
    for (i, p) in sh.pieces.iter().enumerate() {
        if i == g {
            let ctx = p.ctx.clone();
            match filler {
                0 => out.push("/*c*/", Role::Comment, &ctx),
                1 => out.push(" ", Role::Ws { must: false }, &ctx),
                2 => out.push("\n", Role::Ws { must: false }, &ctx),
                3 => {
                    out.push(" ", Role::Ws { must: false }, &ctx);
                    out.push("/*c*/", Role::Comment, &ctx);
                    out.push(" ", Role::Ws { must: false }, &ctx);
                }
                4 => out.push("\t\n ", Role::Ws { must: false }, &ctx),
                5 => {
                    out.push("/*c*/", Role::Comment, &ctx);
                    out.push(" ", Role::Ws { must: false }, &ctx);
                }
                6 => {
                    out.push(" ", Role::Ws { must: false }, &ctx);
                    out.push("/*c*/", Role::Comment, &ctx);
                }
                _ => unreachable!(),
            }
        }
        let mut p = p.clone();
        if i == g && filler != 0 && p.role == Role::Class {
            // a blank between the dot and the name: not a class selector any more
            p.role = Role::Plain;
        }
        out.pieces.push(p);
    }
    out
}
