//! Driving the real stylesheet compiler through its public API.

use crate::common::guarded;
use glass_easel_stylesheet_compiler::{verif_hooks, StyleSheetOptions, StyleSheetTransformer};
use serde_json::{json, Value};

#[derive(Clone, Debug, PartialEq)]
pub struct Opts {
    pub class_prefix: Option<String>,
    pub class_prefix_sign: Option<String>,
    pub rpx_ratio: f32,
    pub import_sign: Option<String>,
    pub convert_host: bool,
    pub host_is: Option<String>,
}

impl Default for Opts {
    fn default() -> Self {
        Opts { class_prefix: None, class_prefix_sign: None, rpx_ratio: 750., import_sign: None, convert_host: false, host_is: None }
    }
}

impl Opts {
    pub fn to_real(&self) -> StyleSheetOptions {
        StyleSheetOptions {
            class_prefix: self.class_prefix.clone(),
            class_prefix_sign: self.class_prefix_sign.clone(),
            rpx_ratio: self.rpx_ratio,
            import_sign: self.import_sign.clone(),
            convert_host: self.convert_host,
            host_is: self.host_is.clone(),
        }
    }
    pub fn to_json(&self) -> Value {
        json!({
            "class_prefix": self.class_prefix, "class_prefix_sign": self.class_prefix_sign,
            "rpx_ratio": if self.rpx_ratio.is_finite() { json!(self.rpx_ratio) } else { json!(self.rpx_ratio.to_string()) },
            "import_sign": self.import_sign, "convert_host": self.convert_host, "host_is": self.host_is,
        })
    }
    pub fn from_json(v: &Value) -> Opts {
        let s = |k: &str| v.get(k).and_then(|x| x.as_str()).map(|x| x.to_string());
        let ratio = match v.get("rpx_ratio") {
            Some(Value::Number(n)) => n.as_f64().unwrap_or(750.) as f32,
            Some(Value::String(s)) => match s.as_str() {
                "NaN" => f32::NAN,
                "inf" => f32::INFINITY,
                "-inf" => f32::NEG_INFINITY,
                o => o.parse().unwrap_or(750.),
            },
            _ => 750.,
        };
        Opts {
            class_prefix: s("class_prefix"),
            class_prefix_sign: s("class_prefix_sign"),
            rpx_ratio: ratio,
            import_sign: s("import_sign"),
            convert_host: v.get("convert_host").and_then(|x| x.as_bool()).unwrap_or(false),
            host_is: s("host_is"),
        }
    }
}

#[derive(Clone, Debug)]
pub struct Warn {
    pub kind: String,
    pub level: u8,
    pub start: (u32, u32),
    pub end: (u32, u32),
}

#[derive(Clone, Debug)]
pub struct MapEntry {
    pub dst_line: u32,
    pub dst_col: u32,
    pub src_line: u32,
    pub src_col: u32,
    pub name: Option<String>,
    pub has_source: bool,
}

#[derive(Clone, Debug, Default)]
pub struct CssRun {
    pub normal: String,
    pub low: String,
    pub warnings: Vec<Warn>,
    pub map_normal: Vec<MapEntry>,
    pub map_low: Vec<MapEntry>,
    /// entries after JSON round trip of the serialised map
    pub map_normal_rt: Vec<MapEntry>,
    pub map_low_rt: Vec<MapEntry>,
    pub fuel: u64,
}

fn entries(sm: &sourcemap::SourceMap) -> Vec<MapEntry> {
    sm.tokens()
        .map(|t| MapEntry {
            dst_line: t.get_dst_line(),
            dst_col: t.get_dst_col(),
            src_line: t.get_src_line(),
            src_col: t.get_src_col(),
            name: t.get_name().map(|x| x.to_string()),
            has_source: t.get_source().is_some(),
        })
        .collect()
}

/// Run the transformer; `Err` carries (stage, panic message).
pub fn transform(path: &str, css: &str, opts: &Opts, fuel: u64, want_maps: bool) -> Result<CssRun, (String, String)> {
    verif_hooks::set_fuel(if fuel == 0 { u64::MAX } else { fuel });
    let r = guarded(|| StyleSheetTransformer::from_css(path, css, opts.to_real()));
    let used = verif_hooks::fuel_used();
    verif_hooks::set_fuel(u64::MAX);
    let mut t = r.map_err(|m| ("from_css".to_string(), m))?;
    let mut run = CssRun::default();
    run.fuel = used;
    guarded(|| {
        for w in t.take_warnings() {
            run.warnings.push(Warn {
                // (named from the variant, with the message of the pinned commit: a rewording does not change what the checks look for)
                kind: {
                    use glass_easel_stylesheet_compiler::error::ParseErrorKind as K;
                    #[allow(unreachable_patterns)]
                    match &w.kind {
                        K::UnexpectedCharacter => "unexpected character".to_string(),
                        K::IllegalImportPosition => "`@import` should be placed at the start of the stylesheet (according to CSS standard)".to_string(),
                        K::HostSelectorCombination => "`:host` selector combined with other selectors are not supported".to_string(),
                        other => other.to_string(),
                    }
                },
                level: w.level() as u8,
                start: (w.location.start.line, w.location.start.utf16_col),
                end: (w.location.end.line, w.location.end.utf16_col),
            });
        }
        let (n, l) = t.output_and_low_priority_output();
        let mut buf = Vec::new();
        n.write(&mut buf).unwrap();
        run.normal = String::from_utf8(buf).expect("output not utf8");
        let mut buf = Vec::new();
        l.write(&mut buf).unwrap();
        run.low = String::from_utf8(buf).expect("output not utf8");
        if want_maps {
            // serialise -> parse back (round trip) and also the in-memory map
            let sm_n = n.extract_source_map();
            let sm_l = l.extract_source_map();
            run.map_normal = entries(&sm_n);
            run.map_low = entries(&sm_l);
            let mut b = Vec::new();
            sm_n.to_writer(&mut b).unwrap();
            run.map_normal_rt = entries(&sourcemap::SourceMap::from_reader(&b[..]).expect("map does not parse back"));
            let mut b = Vec::new();
            sm_l.to_writer(&mut b).unwrap();
            run.map_low_rt = entries(&sourcemap::SourceMap::from_reader(&b[..]).expect("map does not parse back"));
        } else {
            let mut b = Vec::new();
            n.write_source_map(&mut b).unwrap();
            let mut b = Vec::new();
            l.write_source_map(&mut b).unwrap();
        }
    })
    .map_err(|m| ("output".to_string(), m))?;
    Ok(run)
}
