//! C08 (token stream + meaningful white space) and C09 (class prefixing) — one exploration, two oracles.

use crate::common::*;
use crate::css::{self, Opts};
use crate::cssgen::*;
use crate::cssmodel::*;
use cssparser::{Parser, ParserInput};
use serde_json::{json, Map, Value};

#[derive(Clone, Copy, PartialEq, Debug)]
pub enum Prop {
    C08,
    C09,
}

fn opts_of(prefix: Option<&str>, sign: Option<&str>) -> Opts {
    Opts { class_prefix: prefix.map(|x| x.to_string()), class_prefix_sign: sign.map(|x| x.to_string()), ..Default::default() }
}

fn variant_name(t: &T) -> &'static str {
    match t {
        T::Ident(_) => "ident",
        T::AtKw(_) => "at-keyword",
        T::Hash(_) | T::IdHash(_) => "hash",
        T::Str(_) => "string",
        T::Url(_) => "url",
        T::BadUrl(_) => "bad-url",
        T::BadStr(_) => "bad-string",
        T::Delim(_) => "delim",
        T::Num { .. } => "number",
        T::Pct { .. } => "percentage",
        T::Dim { .. } => "dimension",
        T::Ws => "ws",
        T::Comment(_) => "comment",
        T::Func(_) => "function",
        T::OpenParen | T::OpenSquare | T::OpenCurly => "open",
        T::CloseParen | T::CloseSquare | T::CloseCurly => "close",
        T::MissingClose => "missing-close",
        _ => "punct",
    }
}

fn tok_name(t: &T) -> String {
    match t {
        T::Delim(c) => format!("delim({})", c),
        T::Cdo => "cdo".into(),
        T::Cdc => "cdc".into(),
        o => variant_name(o).to_string(),
    }
}

fn coarse_ctx(ctx: &str) -> String {
    // value contexts share one code path: one fingerprint for all of them
    if VALUE_CONTEXTS.iter().any(|c| c.0 == ctx) && ctx != "font-face" && !ctx.starts_with("calc") {
        "value".to_string()
    } else {
        ctx.to_string()
    }
}

pub struct Finding {
    pub prop: Prop,
    pub kind: String,
    pub ctx: String,
    pub detail: String,
}

/// Compare one sheet's expected tokens with the actual output for both properties.
pub fn judge(sheet: &Sheet, toks: &[T], opts: &Opts, output: &str) -> Vec<Finding> {
    let eo = ExpectOpts { class_prefix: opts.class_prefix.as_deref(), class_prefix_sign: opts.class_prefix_sign.as_deref(), rpx_ratio: opts.rpx_ratio };
    let exp = expected(sheet, toks, &eo);
    let act = actual(output);
    let mut findings = vec![];
    let looks_prefixed = |t: &T| match (t, &opts.class_prefix) {
        (T::Ident(n), Some(p)) => n.starts_with(&format!("{}--", p)),
        _ => false,
    };
    let is_sign_comment = |t: &T| match (t, &opts.class_prefix_sign) {
        (T::Comment(c), Some(s)) => c == s,
        _ => false,
    };
    // walk both lists
    let (mut i, mut j) = (0usize, 0usize);
    let mut aligned = true;
    let mut out_index_of_piece: Vec<Option<usize>> = vec![None; sheet.pieces.len()];
    while i < exp.len() || j < act.len() {
        let e = exp.get(i);
        let a = act.get(j);
        match (e, a) {
            (Some(e), Some(a)) => {
                let ctx = sheet.pieces[e.piece].ctx.clone();
                if e.is_sign {
                    if is_sign_comment(&a.t) {
                        if e.must_ws_before && !a.ws_before {
                            findings.push(Finding { prop: Prop::C08, kind: "missing-meaningful-whitespace".into(), ctx: ctx.clone(), detail: format!("before the sign comment of class piece {}", e.piece) });
                        }
                        i += 1;
                        j += 1;
                    } else {
                        findings.push(Finding { prop: Prop::C09, kind: "sign-comment-missing".into(), ctx, detail: format!("expected /*{}*/ before class, got {}", opts.class_prefix_sign.clone().unwrap_or_default(), a.t.short()) });
                        i += 1; // C08 does not care: continue aligned
                    }
                    continue;
                }
                if is_sign_comment(&a.t) {
                    findings.push(Finding { prop: Prop::C09, kind: "sign-comment-at-non-class".into(), ctx, detail: format!("sign comment before {}", e.t.short()) });
                    j += 1;
                    continue;
                }
                if e.is_class_rewrite {
                    let unpref = match &sheet.pieces[e.piece].role {
                        Role::Class => T::Ident(sheet.pieces[e.piece].text.clone()),
                        _ => unreachable!(),
                    };
                    if a.t == e.t {
                        // fine
                    } else if a.t == unpref || matches!((&a.t, &unpref), (T::Ident(x), T::Ident(y)) if x == y) {
                        findings.push(Finding { prop: Prop::C09, kind: "class-not-prefixed".into(), ctx: ctx.clone(), detail: format!("expected {}, got {}", e.t.short(), a.t.short()) });
                    } else if let (T::Ident(x), T::Ident(y)) = (&a.t, &toks[e.piece]) {
                        if x == y {
                            findings.push(Finding { prop: Prop::C09, kind: "class-not-prefixed".into(), ctx: ctx.clone(), detail: format!("expected {}, got {}", e.t.short(), a.t.short()) });
                        } else {
                            findings.push(Finding { prop: Prop::C09, kind: "class-rewritten-wrongly".into(), ctx: ctx.clone(), detail: format!("expected {}, got {}", e.t.short(), a.t.short()) });
                        }
                    } else {
                        findings.push(Finding { prop: Prop::C08, kind: format!("token-mismatch:{}->{}", variant_name(&e.t), variant_name(&a.t)), ctx: ctx.clone(), detail: format!("expected {}, got {}", e.t.short(), a.t.short()) });
                        aligned = false;
                        break;
                    }
                } else if !tok_eq(&a.t, &e.t, 1e-4) {
                    if looks_prefixed(&a.t) && matches!(e.t, T::Ident(_)) {
                        findings.push(Finding { prop: Prop::C09, kind: "non-class-token-prefixed".into(), ctx: ctx.clone(), detail: format!("expected {}, got {}", e.t.short(), a.t.short()) });
                    } else {
                        let next = exp.get(i + 1).map(|x| tok_name(&x.t)).unwrap_or("end".into());
                        findings.push(Finding { prop: Prop::C08, kind: format!("token-mismatch:{}+{}->{}", tok_name(&e.t), next, variant_name(&a.t)), ctx: ctx.clone(), detail: format!("expected {}, got {}", e.t.short(), a.t.short()) });
                        aligned = false;
                        break;
                    }
                }
                if e.must_ws_before && !a.ws_before {
                    findings.push(Finding { prop: Prop::C08, kind: "missing-meaningful-whitespace".into(), ctx: ctx.clone(), detail: format!("before {}", e.t.short()) });
                }
                // a blank the input does not have, written between two simple selectors of one compound selector (or inside a
                // simple selector), is a descendant combinator: an extra token that carries meaning
                if a.ws_before && !e.had_ws_before && i > 0 && j > 0 && ctx.starts_with("selector") {
                    let prev = &act[j - 1].t;
                    let ends_simple = matches!(prev, T::Ident(_) | T::Hash(_) | T::IdHash(_) | T::CloseSquare | T::CloseParen | T::Delim('*'));
                    let starts_simple = matches!(a.t, T::Delim('.') | T::Hash(_) | T::IdHash(_) | T::OpenSquare | T::Colon);
                    let inside_simple = (matches!(prev, T::Delim('.') | T::Colon) && matches!(a.t, T::Ident(_) | T::Func(_))) || (matches!(prev, T::Colon) && matches!(a.t, T::Colon));
                    // (the sign comment sits between the dot and the class name: the blank rule applies to the name behind it as well)
                    let same_selector = sheet.pieces[e.piece].ctx == sheet.pieces[exp[i - 1].piece].ctx;
                    if same_selector && ((ends_simple && starts_simple) || inside_simple) {
                        findings.push(Finding { prop: Prop::C08, kind: "whitespace-inserted-inside-compound-selector".into(), ctx: ctx.clone(), detail: format!("between {} and {}", prev.short(), a.t.short()) });
                    }
                }
                out_index_of_piece[e.piece] = Some(j);
                i += 1;
                j += 1;
            }
            (Some(e), None) => {
                let ctx = sheet.pieces[e.piece].ctx.clone();
                findings.push(Finding { prop: Prop::C08, kind: format!("token-dropped:{}", variant_name(&e.t)), ctx, detail: format!("output ends where {} was expected", e.t.short()) });
                aligned = false;
                break;
            }
            (None, Some(a)) => {
                findings.push(Finding { prop: Prop::C08, kind: format!("token-extra:{}", variant_name(&a.t)), ctx: "end".into(), detail: format!("extra {} at the end of the output", a.t.short()) });
                aligned = false;
                break;
            }
            (None, None) => break,
        }
    }
    // micro-syntax spans: compare denotations
    if aligned {
        let mut spans: std::collections::BTreeMap<u32, (Micro, usize, usize)> = Default::default();
        for (pi, p) in sheet.pieces.iter().enumerate() {
            if let Some((id, m)) = p.micro {
                let e = spans.entry(id).or_insert((m, pi, pi));
                e.2 = pi;
            }
        }
        for (_, (m, first, last)) in spans {
            let in_text: String = sheet.pieces[first..=last].iter().filter(|p| !matches!(p.role, Role::Comment)).map(|p| p.text.as_str()).collect();
            let (Some(a0), Some(a1)) = (out_index_of_piece[first], out_index_of_piece[last]) else { continue };
            let out_text = &output[act[a0].start..act[a1].end];
            let (din, dout) = (denote(m, &in_text), denote(m, out_text));
            if din.is_some() && din != dout {
                let squeezed: String = out_text.chars().filter(|c| !c.is_whitespace()).collect();
                let why = if denote(m, &squeezed) == din { "blank-inserted" } else { "respelled" };
                findings.push(Finding { prop: Prop::C08, kind: format!("micro-syntax-changed:{:?}:{}", m, why), ctx: sheet.pieces[first].ctx.clone(), detail: format!("{:?} ({:?}) became {:?} ({:?})", in_text, din, out_text, dout) });
            }
        }
    }
    findings
}

fn denote(m: Micro, text: &str) -> Option<String> {
    let mut input = ParserInput::new(text);
    let mut p = Parser::new(&mut input);
    match m {
        Micro::UnicodeRange => {
            let r = cssparser::UnicodeRange::parse(&mut p).ok()?;
            if !p.is_exhausted() {
                return None;
            }
            Some(format!("{:x}-{:x}", r.start, r.end))
        }
        Micro::Nth => {
            let r = cssparser::parse_nth(&mut p).ok()?;
            if !p.is_exhausted() {
                return None;
            }
            Some(format!("{}n+{}", r.0, r.1))
        }
    }
}

struct Sub {
    name: String,
    size: u64,
    gen: Box<dyn Fn(u64) -> (Sheet, Opts) + Sync + Send>,
}

const OPT4: &[(Option<&str>, Option<&str>)] = &[(None, None), (Some("p"), Some("S")), (Some("p"), None), (None, Some("S"))];
const PREFIXES: &[&str] = &["", "é", "a b", "-", "1x", "p--q"];
// (the last two are written with an escape at their end: the blank that ends the escape is part of the name, a blank behind it is a
// blank of its own - `.\31  .b` is `.1 .b`, `.\31 .b` is `.1.b`)
const CLASS_SPELLINGS: &[&str] = &["a\\.b", "\\31 x", "é😀", "x\\:y", "w-1\\/2", "-c", "C", "\\31 ", "a\\1 "];

fn build(thorough: bool) -> Vec<Sub> {
    let mut subs = vec![];
    let d = if thorough { 3 } else { 2 };
    // 1. selectors to nesting depth d, top level, two option sets
    let n = sel_count(d);
    // (quick: the option set with prefix and sign; thorough: also without either)
    let no = if thorough { 2 } else { 1 };
    subs.push(Sub {
        name: format!("selectors:depth<={}", d),
        size: n * no,
        gen: Box::new(move |i| {
            let (p, s) = OPT4[1 - (i % no) as usize];
            (selector_sheet(d, i / no, &[]), opts_of(p, s))
        }),
    });
    // 2. selectors of depth <= 1 under every wrapper chain
    let cd = if thorough { 3 } else { 2 };
    let n1 = sel_count(1);
    let nc = chain_count(cd);
    let nwo: u64 = if thorough { 4 } else { 2 };
    subs.push(Sub {
        name: format!("wrappers:chains<={} x selectors:depth<=1", cd),
        size: (nc - 1) * n1 * nwo,
        gen: Box::new(move |i| {
            let (p, s) = OPT4[(i % nwo) as usize];
            let k = i / nwo;
            let chain = chain_unrank(k / n1 + 1, cd);
            (selector_sheet(1, k % n1, &chain), opts_of(p, s))
        }),
    });
    // 2b. depth-2 selectors under single wrappers
    let n2 = sel_count(2);
    if thorough {
        subs.push(Sub {
            name: "wrappers:single x selectors:depth<=2".into(),
            size: WRAPPERS.len() as u64 * n2,
            gen: Box::new(move |i| (selector_sheet(2, i % n2, &[(i / n2) as usize]), opts_of(Some("p"), Some("S")))),
        });
    }
    // 2c. statement at-rules with conditions in the prelude (no import sign: the generic at-rule path), every sequence of pieces
    let sl = if thorough { 4 } else { 3 };
    let ns = statement_count(sl);
    subs.push(Sub {
        name: format!("statement-preludes:pieces<={}", sl),
        size: ns * 3 * 4,
        gen: Box::new(move |i| {
            let (p, s) = OPT4[(i % 4) as usize];
            let k = i / 4;
            (statement_sheet((k % 3) as usize, k / 3, sl), opts_of(p, s))
        }),
    });
    // 3. prefix spellings
    subs.push(Sub {
        name: "prefix-spellings x selectors:depth<=1".into(),
        size: n1 * PREFIXES.len() as u64 * 2,
        gen: Box::new(move |i| {
            let sign = if i % 2 == 0 { None } else { Some("S") };
            let k = i / 2;
            let p = PREFIXES[(k % PREFIXES.len() as u64) as usize];
            (selector_sheet(1, k / PREFIXES.len() as u64, &[]), opts_of(Some(p), sign))
        }),
    });
    // 3b. spellings of the class name itself (escapes, non-ASCII, a digit first): the name is prefixed, its spelling kept
    subs.push(Sub {
        name: "class-spellings x selectors:depth<=1".into(),
        size: n1 * CLASS_SPELLINGS.len() as u64 * 4,
        gen: Box::new(move |i| {
            let sign = if i % 2 == 0 { None } else { Some("S") };
            // (with and without a prefix: without one the name is written back as the printer spells it)
            let prefix = if (i / 2) % 2 == 0 { Some("p") } else { None };
            let k = i / 4;
            let sp = CLASS_SPELLINGS[(k % CLASS_SPELLINGS.len() as u64) as usize];
            let mut sh = selector_sheet(1, k / CLASS_SPELLINGS.len() as u64, &[]);
            for p in sh.pieces.iter_mut() {
                if p.role == Role::Class && p.text == "c" {
                    p.text = sp.to_string();
                }
            }
            (sh, opts_of(prefix, sign))
        }),
    });
    // 4. value-token adjacency: pairs (and triples when thorough)
    let nk = KINDS.len() as u64;
    let nctx = VALUE_CONTEXTS.len() as u64;
    subs.push(Sub {
        name: "adjacency:pairs".into(),
        size: nk * nk * 2 * nctx * 2,
        gen: Box::new(move |i| {
            let o = if i % 2 == 0 { opts_of(None, None) } else { opts_of(Some("p"), Some("S")) };
            let mut k = i / 2;
            let c = (k % nctx) as usize;
            k /= nctx;
            let ws = k % 2 == 1;
            k /= 2;
            let (a, b) = ((k % nk) as usize, (k / nk) as usize);
            (value_sheet(c, &[a, b], &[false, ws]), o)
        }),
    });
    subs.push(Sub {
        name: "adjacency:single".into(),
        size: nk * nctx,
        gen: Box::new(move |i| (value_sheet((i % nctx) as usize, &[(i / nctx) as usize], &[false]), opts_of(Some("p"), None))),
    });
    if thorough {
        subs.push(Sub {
            name: "adjacency:triples".into(),
            size: nk * nk * nk * 4 * nctx,
            gen: Box::new(move |i| {
                let mut k = i;
                let c = (k % nctx) as usize;
                k /= nctx;
                let w = k % 4;
                k /= 4;
                let (a, b, cc) = ((k % nk) as usize, ((k / nk) % nk) as usize, (k / nk / nk) as usize);
                (value_sheet(c, &[a, b, cc], &[false, w & 1 == 1, w & 2 == 2]), opts_of(Some("p"), None))
            }),
        });
    }
    // 5. white space / comment fillers at every gap of depth<=1 selectors (one wrapper) and of value pairs
    let max_gaps = 40u64;
    let nf = FILLERS.len() as u64;
    // quick: the atoms, the compound selectors `.c` + atom and atom + `.c` (a blank at a gap inside a function must not move
    // to the outside: `.x:not( .a ).b`); thorough: every selector of depth <= 1
    let a1 = atoms_count(1);
    let nsel = if thorough { n1 } else { 3 * a1 };
    let sel_of = move |k: u64| if thorough || k < 2 * a1 { k } else { k - 2 * a1 + 11 * a1 };
    subs.push(Sub {
        name: "fillers:selectors".into(),
        size: nsel * max_gaps * nf * 2,
        gen: Box::new(move |i| {
            let wrap = i % 2 == 1;
            let mut k = i / 2;
            let f = (k % nf) as usize;
            k /= nf;
            let g = (k % max_gaps) as usize;
            k /= max_gaps;
            let k = sel_of(k);
            let base = if wrap { selector_sheet(1, k, &[2]) } else { selector_sheet(1, k, &[]) };
            if g >= base.pieces.len() {
                return (Sheet::new(), opts_of(None, None));
            }
            (with_filler(&base, g, f), opts_of(Some("p"), Some("S")))
        }),
    });
    subs.push(Sub {
        name: "fillers:value-pairs".into(),
        size: nk * nk * nctx * 16 * nf,
        gen: Box::new(move |i| {
            let mut k = i;
            let f = (k % nf) as usize;
            k /= nf;
            let g = (k % 16) as usize;
            k /= 16;
            let c = (k % nctx) as usize;
            k /= nctx;
            let base = value_sheet(c, &[(k % nk) as usize, (k / nk) as usize], &[false, true]);
            if g >= base.pieces.len() {
                return (Sheet::new(), opts_of(None, None));
            }
            (with_filler(&base, g, f), opts_of(Some("p"), None))
        }),
    });
    subs
}

pub fn run_one(sheet: &Sheet, opts: &Opts) -> Result<Option<(Vec<Finding>, String)>, String> {
    if sheet.pieces.is_empty() {
        return Ok(None);
    }
    let text = sheet.text();
    let whole = flatten(&text);
    let Some(toks) = piece_tokens(sheet, &whole) else { return Ok(None) };
    match css::transform("s.wxss", &text, opts, 0, false) {
        Ok(run) => {
            let mut f = judge(sheet, &toks, opts, &run.normal);
            if !run.low.is_empty() {
                f.push(Finding { prop: Prop::C08, kind: "unexpected-low-priority-output".into(), ctx: "sheet".into(), detail: run.low.clone() });
            }
            Ok(Some((f, run.normal)))
        }
        Err((stage, msg)) => Err(crate::common::panic_err(&text, &opts.to_json(), &stage, &msg)),
    }
}

pub fn explore(prop: Prop, thorough: bool, result_path: &str) {
    silence_panics();
    let subs = build(thorough);
    let total: u64 = subs.iter().map(|s| s.size).sum();
    let mut starts = vec![];
    let mut acc = 0u64;
    for s in &subs {
        starts.push(acc);
        acc += s.size;
    }
    let pid = if prop == Prop::C08 { "C08" } else { "C09" };
    let rep = par_run(total, threads(), |i, rep| {
        let k = match starts.binary_search(&i) {
            Ok(k) => k,
            Err(k) => k - 1,
        };
        let (sheet, opts) = (subs[k].gen)(i - starts[k]);
        rep.transitions += 1;
        match run_one(&sheet, &opts) {
            Ok(None) => {
                rep.count("skipped:not-the-intended-token-sequence", 1);
                rep.count(&format!("skipped-in:{}", subs[k].name.split(':').next().unwrap()), 1);
            }
            Err(m) => rep.engine_error(if matches!(prop, Prop::C08) { "C08" } else { "C09" }, m),
            Ok(Some((findings, output))) => {
                rep.states += 1;
                rep.evaluations += 1;
                let text = sheet.text();
                rep.count(&format!("space:{}", subs[k].name.split(':').next().unwrap()), 1);
                let rewritten = sheet.pieces.iter().any(|p| matches!(p.role, Role::Class | Role::Rpx | Role::Comment)) || sheet.pieces.iter().any(|p| matches!(p.role, Role::Ws { must: true }));
                if rewritten {
                    rep.nontrivial_case(&(&text, opts.class_prefix.as_deref(), opts.class_prefix_sign.as_deref()));
                }
                rep.outcome(&output);
                if i % 500_009 == 0 {
                    rep.sample(json!({"space": subs[k].name, "input": text, "options": opts.to_json(), "output": output}));
                }
                for f in findings {
                    if f.prop != prop {
                        rep.count("mismatches-of-the-sibling-property", 1);
                        continue;
                    }
                    rep.violation(Violation {
                        fingerprint: format!("{}|{}|{}", pid, f.kind, coarse_ctx(&f.ctx)),
                        what: format!("{} in context {}: {} — input {:?} options {} output {:?}", f.kind, f.ctx, f.detail, text, opts.to_json(), output),
                        replay: json!({"engine": pid.to_lowercase(), "input": text, "pieces": sheet.pieces.iter().map(|p| json!([p.text, format!("{:?}", p.role), p.ctx, p.micro.map(|m| format!("{:?}", m))])).collect::<Vec<_>>(), "options": opts.to_json(), "kind": f.kind, "ctx": f.ctx}),
                    });
                }
            }
        }
    });
    let mut extra = Map::new();
    extra.insert("spaces".into(), json!(subs.iter().map(|s| json!({"name": s.name, "size": s.size})).collect::<Vec<_>>()));
    let bound = json!({"selector_function_depth": if thorough {3} else {2}, "wrapper_chain_depth": if thorough {3} else {2}, "wrappers": WRAPPERS, "token_kinds": KINDS.len(), "adjacency": if thorough {"pairs and triples"} else {"pairs"}, "value_contexts": VALUE_CONTEXTS.len(), "fillers": FILLERS});
    let res = rep.to_result(
        pid,
        "every selector of the model grammar up to the function-nesting depth, under every wrapper chain up to the chain depth; every ordered pair (triple) of token kinds with and without a blank in every value context; every filler at every gap; each under the listed option sets. non-trivial = the sheet contains at least one class, rpx length, comment or meaningful blank; distinct = distinct (input, options)",
        bound,
        true,
        &["cssparser's tokenizer is trusted on both sides (input pieces and output)", "a printed sheet that does not tokenise to the piece sequence the model intended is skipped and counted"],
        extra,
    );
    write_result(result_path, &res);
}

/// replay: {input pieces.., options}
pub fn replay(prop: Prop, v: &Value) -> Value {
    silence_panics();
    let mut sheet = Sheet::new();
    for p in v["pieces"].as_array().expect("pieces") {
        let text = p[0].as_str().unwrap();
        let role_s = p[1].as_str().unwrap();
        let role = if role_s == "Plain" {
            Role::Plain
        } else if role_s == "Class" {
            Role::Class
        } else if role_s == "Rpx" {
            Role::Rpx
        } else if role_s == "Comment" {
            Role::Comment
        } else {
            Role::Ws { must: role_s.contains("true") }
        };
        sheet.push(text, role, p[2].as_str().unwrap());
        if let Some(m) = p[3].as_str() {
            // "(id, Kind)"
            let id: u32 = m.trim_start_matches('(').split(',').next().unwrap().trim().parse().unwrap();
            let kind = if m.contains("UnicodeRange") { Micro::UnicodeRange } else { Micro::Nth };
            sheet.pieces.last_mut().unwrap().micro = Some((id, kind));
        }
    }
    let opts = Opts::from_json(&v["options"]);
    let run = |_: ()| -> Vec<String> {
        match run_one(&sheet, &opts) {
            Ok(Some((f, _))) => f.into_iter().filter(|f| f.prop == prop).map(|f| format!("{}|{}: {}", f.kind, f.ctx, f.detail)).collect(),
            Ok(None) => {
                eprintln!("note: the sheet is skipped by the engine (it does not tokenise piece by piece as intended)");
                vec![]
            }
            Err(m) => vec![format!("panic: {}", m)],
        }
    };
    let a = run(());
    let b = run(());
    json!({"deterministic": a == b, "failure": if a.is_empty() { Value::Null } else { json!(a) }})
}
