//! C17 — `:host` conversion partitions the rules of a sheet without loss.
//!
//! Rule trees (ordinary / `:host` variants under chains of rule-bearing at-rules) are enumerated;
//! the expected normal and low-priority outputs are built as *virtual sheets* of model pieces and
//! compared token by token (same comparison as C08, strict).

use crate::common::*;
use crate::css::{self, Opts};
use crate::cssgen::*;
use crate::cssmodel::*;
use serde_json::{json, Map, Value};

#[derive(Clone, Copy, Debug, PartialEq)]
pub enum Leaf {
    Ordinary,
    Host,
    HostFn,
    HostDesc,
    DescHost,
    HostList,
    HostPseudo,
    /// a declaration-only at-rule block (`@font-face{…}`): stays where it is
    AtBlock,
    /// `: host{…}` — a blank between the colon and the name: not the `:host` pseudo-class (a selector has no blank there), a rule
    /// like any other: stays where it is, blank included
    BlankHost,
}
pub const LEAVES: &[Leaf] = &[Leaf::Ordinary, Leaf::Host, Leaf::AtBlock, Leaf::HostFn, Leaf::HostDesc, Leaf::DescHost, Leaf::HostList, Leaf::HostPseudo, Leaf::BlankHost];
const WRAP3: &[usize] = &[0, 1, 2]; // @media, @supports, @layer

#[derive(Clone, Debug)]
pub enum Node {
    Rule(Leaf),
    Wrap(usize, Vec<Node>),
}

impl Leaf {
    fn moved(self) -> bool {
        self == Leaf::Host
    }
    fn dropped(self) -> bool {
        matches!(self, Leaf::HostFn | Leaf::HostDesc | Leaf::HostList | Leaf::HostPseudo)
    }
}

/// the block `{c:<id>rpx;d:.x;e:"é😀"}` — the id makes every rule identifiable
fn push_block(sh: &mut Sheet, id: u32) {
    sh.plain("{", "rule");
    sh.plain("c", "decl");
    sh.plain(":", "decl");
    sh.push(&format!("{}rpx", id * 75), Role::Rpx, "value");
    sh.plain(";", "decl");
    sh.plain("d", "decl");
    sh.plain(":", "decl");
    sh.plain(".", "value");
    sh.plain("x", "value");
    // (non-ASCII text in every block: byte offsets and UTF-16 offsets of the output differ from the first rule on)
    sh.plain(";", "decl");
    sh.plain("e", "decl");
    sh.plain(":", "decl");
    sh.plain("\"é😀\"", "value");
    sh.plain("}", "rule");
}

/// spellings of `:host` (the same selector for a tokenizer: comments are no tokens, escapes are resolved)
pub const HOST_SPELLINGS: &[&str] = &[":host", ":/*c*/host", ":h\\6f st", ":\\68ost", ":HOST", ":Host"];
thread_local! {
    /// how the `:host` selectors of the sheet being built are spelled (index into HOST_SPELLINGS)
    pub static HOST_SPELLING: std::cell::Cell<usize> = std::cell::Cell::new(0);
    /// what stands in front of every top-level rule of the sheet being built: 0 nothing, 1 `<!--`, 2 `-->` (CSS ignores both between
    /// the rules of a style sheet: the rule behind them is a rule like any other; the tokens stay in the normal output)
    pub static TOP_SEPARATOR: std::cell::Cell<usize> = std::cell::Cell::new(0);
    /// a selector that is never followed by a block, at the end of the file (top-level lists) or at the end of a wrapper's block:
    /// index into TRAILERS, 0 = none. It is no rule: nothing is moved, nothing is warned about, the tokens stay where they are
    /// (as they do with conversion off).
    pub static TRAILER: std::cell::Cell<usize> = std::cell::Cell::new(0);
}
pub const TRAILERS: &[&str] = &["", ":host", ":host .b", ":", ".b :host"];

fn push_trailer(sh: &mut Sheet) {
    let c = "selector";
    match TRAILER.with(|x| x.get()) {
        0 => {}
        1 => {
            sh.plain(":", c);
            sh.plain("host", c);
        }
        2 => {
            sh.plain(":", c);
            sh.plain("host", c);
            sh.ws(true, c);
            sh.plain(".", c);
            sh.push("b", Role::Class, c);
        }
        3 => sh.plain(":", c),
        _ => {
            sh.plain(".", c);
            sh.push("b", Role::Class, c);
            sh.ws(true, c);
            sh.plain(":", c);
            sh.plain("host", c);
        }
    }
}

fn push_selector(sh: &mut Sheet, leaf: Leaf) {
    let c = "selector";
    let host = |sh: &mut Sheet| {
        sh.plain(":", c);
        match HOST_SPELLING.with(|x| x.get()) {
            0 => sh.plain("host", c),
            1 => {
                sh.push("/*c*/", Role::Comment, c);
                sh.plain("host", c);
            }
            2 => sh.plain("h\\6f st", c),
            3 => sh.plain("\\68ost", c),
            // (pseudo-class names are ASCII case-insensitive)
            4 => sh.plain("HOST", c),
            _ => sh.plain("Host", c),
        }
    };
    match leaf {
        Leaf::Ordinary => {
            sh.plain(".", c);
            sh.push("o", Role::Class, c);
        }
        Leaf::Host => host(sh),
        Leaf::BlankHost => {
            sh.plain(":", c);
            sh.ws(true, c);
            sh.plain("host", c);
        }
        Leaf::AtBlock => sh.plain("@font-face", "prelude:@font-face"),
        Leaf::HostFn => {
            sh.plain(":", c);
            sh.plain("host(", c);
            sh.plain(".", c);
            sh.push("a", Role::Class, c);
            sh.plain(")", c);
        }
        Leaf::HostDesc => {
            host(sh);
            sh.ws(true, c);
            sh.plain(".", c);
            sh.push("a", Role::Class, c);
        }
        Leaf::DescHost => {
            sh.plain(".", c);
            sh.push("a", Role::Class, c);
            sh.ws(true, c);
            host(sh);
        }
        Leaf::HostList => {
            host(sh);
            sh.plain(",", c);
            sh.plain(".", c);
            sh.push("b", Role::Class, c);
        }
        Leaf::HostPseudo => {
            host(sh);
            sh.plain(":", c);
            sh.plain("hover", c);
        }
    }
}

/// where a piece of the expected low-priority sheet comes from
#[derive(Clone, Debug, PartialEq)]
pub enum LowSrc {
    /// replayed wrapper text (not written through the token path)
    Replay,
    /// synthesised by the conversion of the `:host` rule whose prelude spans these input pieces
    Synth(usize, usize),
    /// copied / transformed from this input piece
    Copy(usize),
}

pub struct Built {
    pub input: Sheet,
    pub normal: Sheet,
    pub low: Sheet,
    pub low_src: Vec<LowSrc>,
    pub dropped: u32,
    pub moved: u32,
    pub rules: u32,
}

fn build_rec(nodes: &[Node], chain: &mut Vec<usize>, b: &mut Built, opts: &Opts, next_id: &mut u32) {
    for n in nodes {
        if chain.is_empty() {
            let sep = TOP_SEPARATOR.with(|x| x.get());
            if sep != 0 {
                let t = if sep == 1 { "<!--" } else { "-->" };
                b.input.plain(t, "separator");
                b.normal.plain(t, "separator");
            }
        }
        match n {
            Node::Rule(leaf) => {
                let id = *next_id;
                *next_id += 1;
                b.rules += 1;
                let sel_start = b.input.pieces.len();
                push_selector(&mut b.input, *leaf);
                let block_start = b.input.pieces.len();
                push_block(&mut b.input, id);
                let block_end = b.input.pieces.len();
                let convert = opts.convert_host;
                if convert && leaf.moved() {
                    b.moved += 1;
                    for w in chain.iter() {
                        push_wrapper_open(&mut b.low, *w);
                    }
                    let c = "synth";
                    b.low.plain("[", c);
                    b.low.plain("wx-host", c);
                    b.low.plain("=", c);
                    b.low.plain(&format!("{:?}", opts.class_prefix.clone().unwrap_or_default()), c);
                    b.low.plain("]", c);
                    if let Some(h) = &opts.host_is {
                        b.low.plain(",", c);
                        b.low.plain("[", c);
                        b.low.plain("is", c);
                        b.low.plain("=", c);
                        b.low.plain(&format!("{:?}", h), c);
                        b.low.plain("]", c);
                    }
                    while b.low_src.len() < b.low.pieces.len() {
                        let replay = b.low.pieces[b.low_src.len()].ctx != "synth";
                        b.low_src.push(if replay { LowSrc::Replay } else { LowSrc::Synth(sel_start, block_start) });
                    }
                    push_block(&mut b.low, id);
                    for k in block_start..block_end {
                        b.low_src.push(LowSrc::Copy(k));
                    }
                    for _ in chain.iter() {
                        b.low.plain("}", "wrapper");
                        b.low_src.push(LowSrc::Replay);
                    }
                } else if convert && leaf.dropped() {
                    b.dropped += 1;
                } else {
                    push_selector(&mut b.normal, *leaf);
                    push_block(&mut b.normal, id);
                }
            }
            Node::Wrap(w, children) => {
                push_wrapper_open(&mut b.input, *w);
                push_wrapper_open(&mut b.normal, *w);
                chain.push(*w);
                build_rec(children, chain, b, opts, next_id);
                if chain.len() == 1 {
                    push_trailer(&mut b.input);
                    push_trailer(&mut b.normal);
                }
                chain.pop();
                b.input.plain("}", "wrapper");
                b.normal.plain("}", "wrapper");
            }
        }
    }
}

pub fn build(nodes: &[Node], opts: &Opts) -> Built {
    let mut b = Built { input: Sheet::new(), normal: Sheet::new(), low: Sheet::new(), low_src: vec![], dropped: 0, moved: 0, rules: 0 };
    let mut id = 1;
    build_rec(nodes, &mut vec![], &mut b, opts, &mut id);
    if !nodes.iter().any(|n| matches!(n, Node::Wrap(..))) {
        push_trailer(&mut b.input);
        push_trailer(&mut b.normal);
    }
    b
}

// --- enumeration -------------------------------------------------------------------------------

/// number of node lists; `lens[d]` = maximal list length at remaining depth d
pub fn lists(d: u32, lens: &[u32], nleaves: u64) -> u64 {
    let it = items(d, lens, nleaves);
    let mut total = 0;
    let mut p = 1;
    for _ in 0..=lens[d as usize] {
        total += p;
        p *= it;
    }
    total
}
fn items(d: u32, lens: &[u32], nleaves: u64) -> u64 {
    if d == 0 {
        nleaves
    } else {
        nleaves + WRAP3.len() as u64 * lists(d - 1, lens, nleaves)
    }
}
pub fn unrank_list(mut i: u64, d: u32, lens: &[u32], nleaves: u64) -> Vec<Node> {
    let it = items(d, lens, nleaves);
    let mut len = 0;
    let mut p = 1;
    loop {
        if i < p {
            break;
        }
        i -= p;
        p *= it;
        len += 1;
    }
    let mut out = vec![];
    for _ in 0..len {
        out.push(unrank_item(i % it, d, lens, nleaves));
        i /= it;
    }
    out
}
fn unrank_item(i: u64, d: u32, lens: &[u32], nleaves: u64) -> Node {
    if i < nleaves {
        return Node::Rule(LEAVES[i as usize]);
    }
    let i = i - nleaves;
    let inner = lists(d - 1, lens, nleaves);
    Node::Wrap(WRAP3[(i / inner) as usize], unrank_list(i % inner, d - 1, lens, nleaves))
}

pub fn option_sets() -> Vec<Opts> {
    let mut v = vec![];
    for convert in [true, false] {
        for p in [None, Some("p")] {
            for h in [None, Some("h")] {
                for s in [None, Some("S")] {
                    if !convert && (s.is_some()) {
                        continue;
                    }
                    // (a ratio other than the default: the blocks of moved rules are converted with the configured ratio too)
                    for ratio in [750f32, 300.] {
                        if ratio != 750. && !(convert && s.is_none()) {
                            continue;
                        }
                        v.push(Opts { convert_host: convert, class_prefix: p.map(|x| x.to_string()), host_is: h.map(|x| x.to_string()), class_prefix_sign: s.map(|x| x.to_string()), rpx_ratio: ratio, import_sign: None });
                    }
                }
            }
        }
    }
    v
}

pub fn describe(nodes: &[Node]) -> String {
    nodes
        .iter()
        .map(|n| match n {
            Node::Rule(l) => format!("{:?}", l),
            Node::Wrap(w, c) => format!("{}{{{}}}", WRAPPERS[*w], describe(c)),
        })
        .collect::<Vec<_>>()
        .join(" ")
}

fn shape(nodes: &[Node]) -> String {
    // coarse shape for fingerprints: which leaf kinds occur at which depth
    fn rec(nodes: &[Node], depth: u32, out: &mut std::collections::BTreeSet<String>) {
        for n in nodes {
            match n {
                Node::Rule(l) => {
                    out.insert(format!("{:?}@{}", l, depth));
                }
                Node::Wrap(_, c) => rec(c, depth + 1, out),
            }
        }
    }
    let mut s = Default::default();
    rec(nodes, 0, &mut s);
    s.into_iter().collect::<Vec<_>>().join(",")
}

pub fn check_tree(nodes: &[Node], opts: &Opts) -> Result<Vec<(String, String)>, String> {
    let b = build(nodes, opts);
    let text = b.input.text();
    let run = css::transform("h.wxss", &text, opts, 0, false).map_err(|(s, m)| crate::common::panic_err(&text, &opts.to_json(), &s, &m))?;
    let eo = ExpectOpts { class_prefix: opts.class_prefix.as_deref(), class_prefix_sign: opts.class_prefix_sign.as_deref(), rpx_ratio: opts.rpx_ratio };
    let mut problems = vec![];
    for (name, virt, out) in [("normal", &b.normal, &run.normal), ("low-priority", &b.low, &run.low)] {
        let vt = virt.text();
        let whole = flatten(&vt);
        let Some(toks) = piece_tokens(virt, &whole) else { return Err(format!("model sheet does not tokenise as intended: {:?}", vt)) };
        let exp = expected(virt, &toks, &eo);
        let act = actual(out);
        if let Some(m) = compare(&exp, &act, 1e-4) {
            let kind = match &m {
                Mismatch::Token { expected: Some(e), actual: Some(_), .. } => format!("{}-output-token-mismatch:{}", name, virt.pieces[e.piece].ctx),
                Mismatch::Token { expected: Some(_), actual: None, .. } => format!("{}-output-too-short", name),
                Mismatch::Token { expected: None, .. } => format!("{}-output-has-extra-tokens", name),
                Mismatch::MissingWs { .. } => format!("{}-output-missing-blank", name),
                Mismatch::ExtraWsInMicro { .. } => format!("{}-output-extra-blank", name),
            };
            problems.push((kind, format!("{:?}; expected sheet {:?}, got {:?}", m, vt, out)));
        }
    }
    let host_warnings = run.warnings.iter().filter(|w| w.kind.contains(":host")).count() as u32;
    if host_warnings != b.dropped {
        problems.push(("host-combination-warning-count".into(), format!("{} illegal :host combinations, {} warnings", b.dropped, host_warnings)));
    }
    if let Some(w) = run.warnings.iter().find(|w| !w.kind.contains(":host")) {
        problems.push(("unexpected-warning".into(), format!("{:?}", w)));
    }
    Ok(problems)
}

pub fn explore(thorough: bool, result_path: &str) {
    silence_panics();
    let opts = option_sets();
    // space 1: all leaf kinds, depth <= 1, lists of <= 2, every option set
    let lens1: &[u32] = &[2, 2];
    let n1 = lists(1, lens1, LEAVES.len() as u64);
    // space 2: three leaf kinds (ordinary, :host, @font-face block), deeper trees, three option sets
    let (d2, lens2): (u32, &[u32]) = if thorough { (3, &[1, 2, 2, 1]) } else { (2, &[1, 2, 2]) };
    let n2 = lists(d2, lens2, 3);
    let deep_opts: Vec<Opts> = vec![opts[0].clone(), opts.iter().find(|o| o.convert_host && o.class_prefix.is_some() && o.host_is.is_some() && o.class_prefix_sign.is_some()).unwrap().clone(), opts.iter().find(|o| !o.convert_host && o.class_prefix.is_some() && o.host_is.is_some()).unwrap().clone()];
    // space 3: all leaf kinds, flat lists of <= 3 (quick) / 4 (thorough) rules, bare or inside one wrapper, every option set
    let lens3: &[u32] = if thorough { &[4] } else { &[3] };
    let n3 = lists(0, lens3, LEAVES.len() as u64) * 2;
    let no = opts.len() as u64;
    // space 4: the other spellings of `:host`: every pair of leaves (bare and inside one wrapper), every option set
    let lens4: &[u32] = &[2];
    let n4 = lists(0, lens4, LEAVES.len() as u64) * 2 * (HOST_SPELLINGS.len() as u64 - 1);
    // space 5: `<!--` / `-->` in front of every top-level rule: every pair of leaves, every option set
    let n5 = lists(0, lens4, LEAVES.len() as u64) * 2;
    // space 6: a selector without a block at the end of the file / of a wrapper's block, behind every list of <= 2 leaves
    let nt = TRAILERS.len() as u64 - 1;
    let n6 = lists(0, lens4, LEAVES.len() as u64) * 2 * nt;
    let base6 = n1 * no + n2 * 3 + n3 * no + n4 * no + n5 * no;
    let total = base6 + n6 * no;
    let rep = par_run(total, threads(), |i, rep| {
        let mut spelling = 0usize;
        let mut separator = 0usize;
        let mut trailer = 0usize;
        let (space, nodes, o) = if i >= base6 {
            let k = i - base6;
            let j = k / no;
            trailer = 1 + (j % nt) as usize;
            let j = j / nt;
            let flat = unrank_list(j / 2, 0, lens4, LEAVES.len() as u64);
            ("selector-without-block", if j % 2 == 0 { flat } else { vec![Node::Wrap(0, flat)] }, &opts[(k % no) as usize])
        } else if i >= n1 * no + n2 * 3 + n3 * no + n4 * no {
            let k = i - (n1 * no + n2 * 3 + n3 * no + n4 * no);
            let j = k / no;
            separator = 1 + (j % 2) as usize;
            ("top-level-separators", unrank_list(j / 2, 0, lens4, LEAVES.len() as u64), &opts[(k % no) as usize])
        } else if i < n1 * no {
            ("all-leaves:depth<=1:len<=2", unrank_list(i / no, 1, lens1, LEAVES.len() as u64), &opts[(i % no) as usize])
        } else if i < n1 * no + n2 * 3 {
            let k = i - n1 * no;
            ("3-leaves:deep", unrank_list(k / 3, d2, lens2, 3), &deep_opts[(k % 3) as usize])
        } else if i < n1 * no + n2 * 3 + n3 * no {
            let k = i - n1 * no - n2 * 3;
            let j = k / no;
            let flat = unrank_list(j / 2, 0, lens3, LEAVES.len() as u64);
            ("flat-lists", if j % 2 == 0 { flat } else { vec![Node::Wrap(0, flat)] }, &opts[(k % no) as usize])
        } else {
            let k = i - n1 * no - n2 * 3 - n3 * no;
            let j = k / no;
            let ns = HOST_SPELLINGS.len() as u64 - 1;
            spelling = 1 + (j % ns) as usize;
            let j = j / ns;
            let flat = unrank_list(j / 2, 0, lens4, LEAVES.len() as u64);
            ("host-spellings", if j % 2 == 0 { flat } else { vec![Node::Wrap(0, flat)] }, &opts[(k % no) as usize])
        };
        HOST_SPELLING.with(|x| x.set(spelling));
        TOP_SEPARATOR.with(|x| x.set(separator));
        TRAILER.with(|x| x.set(trailer));
        rep.states += 1;
        rep.transitions += 1;
        rep.evaluations += 1;
        rep.count(&format!("space:{}", space), 1);
        match check_tree(&nodes, o) {
            Err(m) => rep.engine_error("C17", m),
            Ok(problems) => {
                let has_host = describe(&nodes).contains("Host");
                if has_host && o.convert_host {
                    rep.nontrivial_case(&i);
                }
                rep.outcome(&(problems.len(), shape(&nodes), o.convert_host));
                if i % 400_009 == 0 {
                    rep.sample(json!({"tree": describe(&nodes), "options": o.to_json(), "input": build(&nodes, o).input.text()}));
                }
                for (kind, detail) in problems {
                    rep.violation(Violation {
                        fingerprint: format!("C17|{}|convert={}", kind, o.convert_host),
                        what: format!("{} for rule tree [{}] options {}: {}", kind, describe(&nodes), o.to_json(), detail.chars().take(500).collect::<String>()),
                        replay: json!({"engine": "c17", "tree": tree_json(&nodes), "options": o.to_json(), "host_spelling": spelling, "top_separator": separator, "trailer": trailer, "input": build(&nodes, o).input.text()}),
                    });
                }
            }
        }
    });
    let res = rep.to_result(
        "C17",
        "every rule tree of the stated shape (leaf kinds: ordinary, :host, @font-face{…}, :host(.a), :host .a, .a :host, :host,.b, :host:hover, `: host` with a blank (an ordinary rule); a selector without a block (`:host`, `:host .b`, `:`, `.b :host`) at the end of the file or of a wrapper's block; wrappers @media/@supports/@layer; `:host` also spelled with a comment after the colon and with escapes) under every option set {convert_host} x {class_prefix} x {host_is} x {sign} (and, with conversion on, a second rpx ratio); non-trivial = conversion on and at least one :host rule; distinct = distinct index",
        json!({"depth_all_leaves": 1, "depth_three_leaves": d2, "list_lengths_per_level_deep": lens2, "flat_list_length": lens3[0], "option_sets": opts.len(), "option_sets_deep": 3, "host_spellings": HOST_SPELLINGS}),
        true,
        &["cssparser tokenizer trusted on both sides", "expected outputs are virtual model sheets run through the same token-level reference rewrite as C08"],
        Map::new(),
    );
    write_result(result_path, &res);
}

pub fn tree_json(nodes: &[Node]) -> Value {
    Value::Array(
        nodes
            .iter()
            .map(|n| match n {
                Node::Rule(l) => json!(format!("{:?}", l)),
                Node::Wrap(w, c) => json!({"w": w, "c": tree_json(c)}),
            })
            .collect(),
    )
}
pub fn tree_from(v: &Value) -> Vec<Node> {
    v.as_array()
        .map(|a| {
            a.iter()
                .map(|n| {
                    if let Some(s) = n.as_str() {
                        Node::Rule(*LEAVES.iter().find(|l| format!("{:?}", l) == s).expect("leaf"))
                    } else {
                        Node::Wrap(n["w"].as_u64().unwrap() as usize, tree_from(&n["c"]))
                    }
                })
                .collect()
        })
        .unwrap_or_default()
}

pub fn replay(v: &Value) -> Value {
    silence_panics();
    let nodes = tree_from(&v["tree"]);
    let o = Opts::from_json(&v["options"]);
    HOST_SPELLING.with(|x| x.set(v["host_spelling"].as_u64().unwrap_or(0) as usize));
    TOP_SEPARATOR.with(|x| x.set(v["top_separator"].as_u64().unwrap_or(0) as usize));
    TRAILER.with(|x| x.set(v["trailer"].as_u64().unwrap_or(0) as usize));
    let a = check_tree(&nodes, &o);
    let b = check_tree(&nodes, &o);
    let fmt = |r: &Result<Vec<(String, String)>, String>| match r {
        Ok(p) => p.iter().map(|x| format!("{}: {}", x.0, x.1)).collect::<Vec<_>>(),
        Err(m) => vec![format!("machinery: {}", m)],
    };
    let (a, b) = (fmt(&a), fmt(&b));
    json!({"deterministic": a == b, "failure": if a.is_empty() { Value::Null } else { json!(a) }})
}
