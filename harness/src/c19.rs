//! C19 — stylesheet source maps: every output token written through the token path has an entry at
//! its real UTF-16 column, pointing at the start of its source token, with the original spelling
//! as name when it was rewritten.

use crate::common::*;
use crate::css::{self, MapEntry, Opts};
use crate::cssgen::*;
use crate::cssmodel::*;
use serde_json::{json, Map, Value};

/// (line, utf16 col) of every piece start in the sheet text
fn piece_positions(sheet: &Sheet) -> Vec<(u32, u32)> {
    let mut out = Vec::with_capacity(sheet.pieces.len());
    let (mut line, mut col) = (0u32, 0u32);
    for p in &sheet.pieces {
        out.push((line, col));
        let mut chars = p.text.chars().peekable();
        while let Some(c) = chars.next() {
            match c {
                '\n' | '\x0c' => {
                    line += 1;
                    col = 0;
                }
                '\r' => {
                    if chars.peek() == Some(&'\n') {
                        chars.next();
                    }
                    line += 1;
                    col = 0;
                }
                c => col += c.len_utf16() as u32,
            }
        }
    }
    out
}

fn utf16_offset(s: &str, byte: usize) -> u32 {
    s[..byte].encode_utf16().count() as u32
}

fn is_open(p: &Piece) -> bool {
    p.role == Role::Plain && (matches!(p.text.as_str(), "(" | "[" | "{") || p.text.ends_with('('))
}
fn is_close(p: &Piece) -> bool {
    p.role == Role::Plain && matches!(p.text.as_str(), ")" | "]" | "}")
}

/// index of the opening piece matching the closing piece `i`
fn opener_of(sheet: &Sheet, i: usize) -> Option<usize> {
    if !is_close(&sheet.pieces[i]) {
        return None;
    }
    let mut depth = 0i32;
    for k in (0..i).rev() {
        if is_close(&sheet.pieces[k]) {
            depth += 1;
        } else if is_open(&sheet.pieces[k]) {
            if depth == 0 {
                return Some(k);
            }
            depth -= 1;
        }
    }
    None
}

pub struct Problem {
    pub kind: String,
    pub detail: String,
}

fn check_entries_sorted(name: &str, m: &[MapEntry], problems: &mut Vec<Problem>) {
    let mut prev = (0u32, 0u32);
    for e in m {
        if e.dst_line != 0 {
            problems.push(Problem { kind: format!("{}-map-entry-on-another-output-line", name), detail: format!("{:?}", e) });
            return;
        }
        if (e.dst_line, e.dst_col) < prev {
            problems.push(Problem { kind: format!("{}-map-entries-not-sorted", name), detail: format!("{:?} after {:?}", e, prev) });
            return;
        }
        prev = (e.dst_line, e.dst_col);
    }
}

fn same_entries(a: &[MapEntry], b: &[MapEntry]) -> bool {
    a.len() == b.len() && a.iter().zip(b.iter()).all(|(x, y)| x.dst_line == y.dst_line && x.dst_col == y.dst_col && x.src_line == y.src_line && x.src_col == y.src_col && x.name == y.name && x.has_source == y.has_source)
}

pub fn check_sheet(sheet: &Sheet, opts: &Opts) -> Result<Option<Vec<Problem>>, String> {
    if sheet.pieces.is_empty() {
        return Ok(None);
    }
    let text = sheet.text();
    let whole = flatten(&text);
    let Some(toks) = piece_tokens(sheet, &whole) else { return Ok(None) };
    let run = css::transform("m.wxss", &text, opts, 0, true).map_err(|(s, m)| crate::common::panic_err(&text, &opts.to_json(), &s, &m))?;
    let eo = ExpectOpts { class_prefix: opts.class_prefix.as_deref(), class_prefix_sign: opts.class_prefix_sign.as_deref(), rpx_ratio: opts.rpx_ratio };
    let exp = expected(sheet, &toks, &eo);
    let act = actual(&run.normal);
    // the token streams must agree (C08's business); otherwise the alignment is meaningless
    if exp.len() != act.len() || exp.iter().zip(act.iter()).any(|(e, a)| !tok_eq(&a.t, &e.t, 1e-4)) {
        return Ok(None);
    }
    let pos = piece_positions(sheet);
    let mut problems = vec![];
    check_entries_sorted("normal", &run.map_normal, &mut problems);
    if !same_entries(&run.map_normal, &run.map_normal_rt) || !same_entries(&run.map_low, &run.map_low_rt) {
        problems.push(Problem { kind: "map-changes-through-json".into(), detail: format!("{} entries before, {} after", run.map_normal.len(), run.map_normal_rt.len()) });
    }
    if !run.map_low.is_empty() {
        problems.push(Problem { kind: "low-priority-map-not-empty".into(), detail: format!("{} entries", run.map_low.len()) });
    }
    for (e, a) in exp.iter().zip(act.iter()) {
        let col = utf16_offset(&run.normal, a.start);
        let entries: Vec<&MapEntry> = run.map_normal.iter().filter(|m| m.dst_col == col).collect();
        let ctx = sheet.pieces[e.piece].ctx.clone();
        if entries.is_empty() {
            problems.push(Problem { kind: format!("no-entry-at-token-column:{}", kind_of(e)), detail: format!("output token {:?} at utf16 column {} (context {})", a.t, col, ctx) });
            continue;
        }
        // acceptable source positions
        let mut ok_pos = vec![pos[e.piece]];
        if let Some(o) = opener_of(sheet, e.piece) {
            ok_pos.push(pos[o]);
        }
        if e.is_sign && e.piece > 0 {
            // the sign comment is synthesised: it may point at the class name or at its dot
            let mut k = e.piece;
            while k > 0 {
                k -= 1;
                if matches!(sheet.pieces[k].role, Role::Plain) {
                    ok_pos.push(pos[k]);
                    break;
                }
            }
        }
        let hit = entries.iter().find(|m| m.has_source && ok_pos.contains(&(m.src_line, m.src_col)));
        let Some(hit) = hit else {
            problems.push(Problem {
                kind: format!("entry-points-elsewhere:{}", kind_of(e)),
                detail: format!("output token {:?} at column {} maps to {:?}, source token {:?} starts at {:?} (context {})", a.t, col, entries.iter().map(|m| (m.src_line, m.src_col)).collect::<Vec<_>>(), sheet.pieces[e.piece].text, pos[e.piece], ctx),
            });
            continue;
        };
        let rewritten = (e.is_class_rewrite && !e.is_sign) || matches!(sheet.pieces[e.piece].role, Role::Rpx);
        if rewritten {
            let src_text = &sheet.pieces[e.piece].text;
            let name_ok = match &hit.name {
                Some(n) => n == src_text || flatten(n).first().map(|f| f.t.clone()) == Some(toks[e.piece].clone()),
                None => false,
            };
            if !name_ok {
                problems.push(Problem { kind: format!("rewritten-token-without-original-name:{}", kind_of(e)), detail: format!("output token {:?}: name {:?}, original spelling {:?}", a.t, hit.name, src_text) });
            }
        }
    }
    Ok(Some(problems))
}

/// `:host` conversion: the low-priority output's map (replayed wrappers exempt) and the normal output's map.
pub fn check_host_tree(nodes: &[crate::c17::Node], opts: &Opts, newline_before_rules: bool) -> Result<Option<Vec<Problem>>, String> {
    use crate::c17::LowSrc;
    let mut b = crate::c17::build(nodes, opts);
    if newline_before_rules {
        // non-ASCII / astral characters inside the wrapper preludes (they are replayed as raw text)
        for sh in [&mut b.input, &mut b.normal, &mut b.low] {
            for p in sh.pieces.iter_mut() {
                if p.ctx == "prelude:@layer" && p.text == "x" {
                    p.text = "é😀x".into();
                } else if p.ctx == "prelude:@supports" && p.text == "b" {
                    p.text = "\"宋😀\"".into();
                }
            }
        }
    }
    if newline_before_rules {
        // put every rule on its own line, with an astral comment in front, so that lines and columns matter
        let mut k = 0;
        let mut inserted: Vec<usize> = vec![];
        while k < b.input.pieces.len() {
            let p = &b.input.pieces[k];
            if p.ctx == "selector" && (k == 0 || b.input.pieces[k - 1].ctx != "selector") || p.text.starts_with('@') {
                let ctx = p.ctx.clone();
                b.input.pieces.insert(k, Piece { text: "/*😀*/".into(), role: Role::Comment, micro: None, ctx: ctx.clone() });
                b.input.pieces.insert(k, Piece { text: "\n".into(), role: Role::Ws { must: false }, micro: None, ctx });
                inserted.push(k);
                k += 2;
            }
            k += 1;
        }
        // shift the recorded source indices
        let shift = |i: usize| -> usize { i + 2 * inserted.iter().enumerate().filter(|(n, at)| **at <= i + 2 * *n).count() };
        for s in b.low_src.iter_mut() {
            *s = match s.clone() {
                LowSrc::Copy(i) => LowSrc::Copy(shift(i)),
                LowSrc::Synth(a, z) => LowSrc::Synth(shift(a), shift(z)),
                o => o,
            };
        }
    }
    let text = b.input.text();
    let whole = flatten(&text);
    if piece_tokens(&b.input, &whole).is_none() {
        return Err(format!("model sheet does not tokenise as intended: {:?}", text));
    }
    let run = css::transform("m.wxss", &text, opts, 0, true).map_err(|(s, m)| crate::common::panic_err(&text, &opts.to_json(), &s, &m))?;
    let eo = ExpectOpts { class_prefix: opts.class_prefix.as_deref(), class_prefix_sign: opts.class_prefix_sign.as_deref(), rpx_ratio: opts.rpx_ratio };
    let lt = b.low.text();
    let Some(ltoks) = piece_tokens(&b.low, &flatten(&lt)) else { return Err("low model sheet".into()) };
    let exp = expected(&b.low, &ltoks, &eo);
    let act = actual(&run.low);
    if exp.len() != act.len() || exp.iter().zip(act.iter()).any(|(e, a)| !tok_eq(&a.t, &e.t, 1e-4)) {
        return Ok(None); // C17's business
    }
    let pos = piece_positions(&b.input);
    let mut problems = vec![];
    check_entries_sorted("low-priority", &run.map_low, &mut problems);
    check_entries_sorted("normal", &run.map_normal, &mut problems);
    if !same_entries(&run.map_normal, &run.map_normal_rt) || !same_entries(&run.map_low, &run.map_low_rt) {
        problems.push(Problem { kind: "map-changes-through-json".into(), detail: String::new() });
    }
    for (e, a) in exp.iter().zip(act.iter()) {
        let src = &b.low_src[e.piece];
        if *src == LowSrc::Replay {
            continue;
        }
        let col = utf16_offset(&run.low, a.start);
        let entries: Vec<&MapEntry> = run.map_low.iter().filter(|m| m.dst_col == col).collect();
        if entries.is_empty() {
            problems.push(Problem { kind: format!("low-priority:no-entry-at-token-column:{}", kind_of(e)), detail: format!("output token {:?} at utf16 column {} of {:?}", a.t, col, run.low) });
            continue;
        }
        let ok_pos: Vec<(u32, u32)> = match src {
            LowSrc::Copy(i) => {
                let mut v = vec![pos[*i]];
                if let Some(o) = opener_of(&b.input, *i) {
                    v.push(pos[o]);
                }
                v
            }
            LowSrc::Synth(a0, z0) => (*a0..=*z0).map(|k| pos[k]).collect(),
            LowSrc::Replay => unreachable!(),
        };
        if !entries.iter().any(|m| m.has_source && ok_pos.contains(&(m.src_line, m.src_col))) {
            problems.push(Problem {
                kind: format!("low-priority:entry-points-elsewhere:{}", if matches!(src, LowSrc::Synth(..)) { "synthesised-host-selector" } else { kind_of(e) }),
                detail: format!("output token {:?} at column {} maps to {:?}, acceptable {:?}; input {:?}", a.t, col, entries.iter().map(|m| (m.src_line, m.src_col)).collect::<Vec<_>>(), ok_pos, text),
            });
        }
        if matches!(b.low.pieces[e.piece].role, Role::Rpx) {
            let hit = entries.iter().find(|m| m.name.is_some());
            let want = &b.low.pieces[e.piece].text;
            if hit.map(|m| m.name.as_deref() != Some(want.as_str())).unwrap_or(true) {
                problems.push(Problem { kind: "low-priority:rewritten-token-without-original-name:dimension".into(), detail: format!("names {:?}, original {:?}", entries.iter().map(|m| m.name.clone()).collect::<Vec<_>>(), want) });
            }
        }
    }
    Ok(Some(problems))
}

fn kind_of(e: &Exp) -> &'static str {
    if e.is_sign {
        "sign-comment"
    } else if e.is_class_rewrite {
        "prefixed-class"
    } else {
        match &e.t {
            T::CloseParen | T::CloseSquare | T::CloseCurly => "closing-bracket",
            T::Dim { unit, .. } if unit == "vw" => "dimension",
            T::Func(_) | T::OpenParen | T::OpenSquare | T::OpenCurly => "opening-bracket",
            _ => "copied-token",
        }
    }
}

const LINE_FILLERS: &[&[(&str, bool)]] = &[
    // (text, is_comment)
    &[("\n", false)],
    &[("/*é😀*/", true)],
    &[("\r\n", false)],
    &[(" ", false), ("/*\n😀\n*/", true), ("\n", false)],
];

fn with_line_filler(sh: &Sheet, g: usize, f: usize) -> Sheet {
    let mut out = Sheet::new();
    for (i, p) in sh.pieces.iter().enumerate() {
        let mut p = p.clone();
        if i == g {
            for (t, is_comment) in LINE_FILLERS[f] {
                out.push(t, if *is_comment { Role::Comment } else { Role::Ws { must: false } }, &p.ctx);
            }
            if p.role == Role::Class && f != 1 {
                p.role = Role::Plain;
            }
        }
        out.pieces.push(p);
    }
    out
}

fn multibyte(mut sh: Sheet) -> Sheet {
    for p in sh.pieces.iter_mut() {
        if p.role == Role::Class && p.text == "c" {
            p.text = "é😀c".into();
        }
        if p.text == "\".c\"" {
            p.text = "\"é😀\"".into();
        }
    }
    let mut out = Sheet::new();
    out.push("/*é😀*/", Role::Comment, "prefix-line");
    out.push("\n", Role::Ws { must: false }, "prefix-line");
    out.pieces.extend(sh.pieces);
    out
}

// --- import sheets: the wrapper blocks of a rewritten `@import` are synthesised -----------------------------------------

const IMP_LAYERS: &[&str] = &["", " layer(x)", " layer"];
const IMP_SUPPORTS: &[&str] = &["", " supports(d:v)", " supports(selector(.s))"];
const IMP_MEDIA: &[&str] = &["", " screen", " screen and (w:1rpx)"];
/// separators written between the parts of the rule: one line, every part on a line of its own, behind a multi-byte comment
const IMP_LAYOUTS: &[(&str, &str)] = &[("", ""), ("", "\n  "), ("/*é😀*/\n", "\n")];

/// what stands between the conditions and the semicolon: nothing, or something that is no condition (the rewrite of such an import is
/// given up half-way; whatever is written then, the map describes the tokens that are in the output and no others)
const IMP_TAILS: &[&str] = &["", " 5", " {}", " foo(b) screen"];

pub fn import_sheet_count() -> u64 {
    (IMP_LAYERS.len() * IMP_SUPPORTS.len() * IMP_MEDIA.len() * IMP_LAYOUTS.len() * 2 * IMP_TAILS.len()) as u64
}

pub fn import_sheet(i: u64) -> String {
    let mut k = i as usize;
    let tail = IMP_TAILS[k % IMP_TAILS.len()];
    k /= IMP_TAILS.len();
    let two = k % 2 == 1;
    k /= 2;
    let (head, sep) = IMP_LAYOUTS[k % IMP_LAYOUTS.len()];
    k /= IMP_LAYOUTS.len();
    let m = IMP_MEDIA[k % IMP_MEDIA.len()];
    k /= IMP_MEDIA.len();
    let sp = IMP_SUPPORTS[k % IMP_SUPPORTS.len()];
    k /= IMP_SUPPORTS.len();
    let l = IMP_LAYERS[k % IMP_LAYERS.len()];
    let part = |x: &str| if x.is_empty() { String::new() } else { format!("{}{}", sep, x) };
    let mut t = format!("{}@import \"a.wxss\"{}{}{}{};", head, part(l), part(sp), part(m), tail);
    if !tail.is_empty() {
        t.push_str(&format!("{}.d{{k:1rpx}}", sep));
    }
    if two {
        t.push_str(&format!("{}@import url(b){}{};{}.c{{k:v}}", sep, part(l), part(m), sep));
    }
    t
}

/// every bracket of the output has an entry; a closing bracket points where its opening bracket points (a synthesised
/// block has no closing bracket in the source) or at a closing bracket of its own kind in the source
pub fn check_import_sheet(text: &str) -> Result<Vec<Problem>, String> {
    let opts = Opts { import_sign: Some("I".into()), class_prefix: Some("p".into()), ..Default::default() };
    let run = css::transform("m.wxss", text, &opts, 0, true).map_err(|(s, m)| crate::common::panic_err(text, &opts.to_json(), &s, &m))?;
    let mut problems = vec![];
    check_entries_sorted("normal", &run.map_normal, &mut problems);
    let lines: Vec<Vec<u16>> = text.split('\n').map(|l| l.encode_utf16().collect()).collect();
    for m in run.map_normal.iter().filter(|m| m.has_source) {
        let ok = (m.src_line as usize) < lines.len() && (m.src_col as usize) <= lines[m.src_line as usize].len();
        if !ok {
            problems.push(Problem { kind: "entry-outside-the-source".into(), detail: format!("{:?}", m) });
            return Ok(problems);
        }
    }
    let act = actual(&run.normal);
    // no entry without a token: every entry sits where a token (or a comment) of the output starts
    {
        let starts: std::collections::BTreeSet<u32> = act.iter().map(|a| utf16_offset(&run.normal, a.start)).collect();
        let units: Vec<u16> = run.normal.encode_utf16().collect();
        for m in run.map_normal.iter() {
            let c = m.dst_col as usize;
            let comment = c + 1 < units.len() && units[c] == '/' as u16 && units[c + 1] == '*' as u16;
            if !starts.contains(&m.dst_col) && !comment {
                problems.push(Problem { kind: if c >= units.len() { "entry-beyond-the-output".into() } else { "entry-where-no-token-starts".into() }, detail: format!("output {:?}: entry {:?}", run.normal, m) });
                break;
            }
        }
    }
    // (the pairing below is meaningful in a balanced output only; an unbalanced one is C18's business)
    {
        // (counted on the text: the tokenizer closes open blocks at the end of the input by itself; the sheets of this space have no
        // brackets inside strings or comments)
        let mut depth: i64 = 0;
        for ch in run.normal.chars() {
            match ch {
                '(' | '[' | '{' => depth += 1,
                ')' | ']' | '}' => depth -= 1,
                _ => {}
            }
            if depth < 0 {
                return Ok(problems);
            }
        }
        if depth != 0 {
            return Ok(problems);
        }
    }
    let mut stack: Vec<(usize, T)> = vec![];
    for (idx, a) in act.iter().enumerate() {
        let closer = match &a.t {
            T::Func(_) | T::OpenParen => {
                stack.push((idx, T::CloseParen));
                continue;
            }
            T::OpenSquare => {
                stack.push((idx, T::CloseSquare));
                continue;
            }
            T::OpenCurly => {
                stack.push((idx, T::CloseCurly));
                continue;
            }
            T::CloseParen | T::CloseSquare | T::CloseCurly => a.t.clone(),
            _ => continue,
        };
        let Some((open_idx, want)) = stack.pop() else {
            return Ok(problems); // unbalanced output: C18's business
        };
        if want != closer {
            return Ok(problems);
        }
        let col_of = |k: usize| utf16_offset(&run.normal, act[k].start);
        let entry = |k: usize| run.map_normal.iter().find(|m| m.dst_col == col_of(k) && m.has_source);
        let (Some(eo), Some(ec)) = (entry(open_idx), entry(idx)) else {
            problems.push(Problem { kind: "no-entry-at-bracket".into(), detail: format!("output {:?}: bracket pair at columns {} / {}", run.normal, col_of(open_idx), col_of(idx)) });
            continue;
        };
        let ch = match closer {
            T::CloseParen => ')',
            T::CloseSquare => ']',
            _ => '}',
        };
        let src_char = lines[ec.src_line as usize].get(ec.src_col as usize).copied();
        let own = src_char == Some(ch as u16);
        let same_as_opener = (eo.src_line, eo.src_col) == (ec.src_line, ec.src_col);
        if !own && !same_as_opener {
            problems.push(Problem {
                kind: "closing-bracket-points-away-from-its-block".into(),
                detail: format!("output {:?}: the {:?} at column {} maps to {:?}, its opening bracket at column {} maps to {:?}", run.normal, ch, col_of(idx), (ec.src_line, ec.src_col), col_of(open_idx), (eo.src_line, eo.src_col)),
            });
        }
    }
    Ok(problems)
}

pub fn explore(thorough: bool, result_path: &str) {
    silence_panics();
    let d = if thorough { 2 } else { 1 };
    let ns = sel_count(d);
    let nc = chain_count(1);
    let gaps = 36u64;
    let nf = LINE_FILLERS.len() as u64;
    let nk = KINDS.len() as u64;
    let nctx = VALUE_CONTEXTS.len() as u64;
    // space A: selectors x chains(<=1) x {plain, multibyte}            (options: prefix p + sign S)
    let a = ns * nc * 2;
    // space B: selectors(depth<=1) x gap x line filler, multibyte
    let n1 = if thorough { sel_count(1) } else { sel_count(1).min(4000) };
    let b = n1 * gaps * nf;
    // space C: value pairs x contexts x ws x {plain, multibyte prefix} and with line fillers at every gap
    let c = nk * nk * nctx * 2 * 2;
    let cf = nk * nk * nctx * 14 * nf;
    // space D: `:host` rule trees (C17's all-leaves space, depth <= 1, lists <= 2) x conversion option sets x {one line, rule per line}
    let host_opts: Vec<Opts> = crate::c17::option_sets().into_iter().filter(|o| o.convert_host).collect();
    let lens1: &[u32] = &[2, 2];
    let nh = crate::c17::lists(1, lens1, crate::c17::LEAVES.len() as u64);
    let dsz = nh * host_opts.len() as u64 * 2;
    // space E: rewritten imports (synthesised wrapper blocks): every combination of conditions x three layouts x one / two imports
    let esz = import_sheet_count();
    let total = a + b + c + cf + dsz + esz;
    let o_full = Opts { class_prefix: Some("p".into()), class_prefix_sign: Some("S".into()), ..Default::default() };
    let o_plain = Opts { class_prefix: Some("p".into()), ..Default::default() };
    let rep = par_run(total, threads(), |i, rep| {
        if i >= a + b + c + cf + dsz {
            let text = import_sheet(i - (a + b + c + cf + dsz));
            rep.transitions += 1;
            match check_import_sheet(&text) {
                Err(m) => rep.engine_error("C19", m),
                Ok(problems) => {
                    rep.states += 1;
                    rep.evaluations += 1;
                    rep.count("space:import-sheets", 1);
                    rep.nontrivial_case(&text);
                    rep.outcome(&(problems.len(), "import", text.len()));
                    for p in problems {
                        rep.violation(Violation {
                            fingerprint: format!("C19|{}", p.kind),
                            what: format!("{}: {} — input {:?}", p.kind, p.detail, text),
                            replay: json!({"engine": "c19", "import_sheet": text}),
                        });
                    }
                }
            }
            return;
        }
        if i >= a + b + c + cf {
            let mut k = i - (a + b + c + cf);
            let nl = k % 2 == 1;
            k /= 2;
            let o = &host_opts[(k % host_opts.len() as u64) as usize];
            let nodes = crate::c17::unrank_list(k / host_opts.len() as u64, 1, lens1, crate::c17::LEAVES.len() as u64);
            rep.transitions += 1;
            match check_host_tree(&nodes, o, nl) {
                Err(m) => rep.engine_error("C19", m),
                Ok(None) => rep.count("skipped:host-tree-with-C17-mismatch", 1),
                Ok(Some(problems)) => {
                    rep.states += 1;
                    rep.evaluations += 1;
                    rep.count("space:host-trees", 1);
                    if nl {
                        rep.nontrivial_case(&i);
                    }
                    rep.outcome(&(problems.len(), nl, crate::c17::describe(&nodes).len()));
                    for p in problems {
                        rep.violation(Violation {
                            fingerprint: format!("C19|{}", p.kind),
                            what: format!("{}: {} — rule tree [{}] options {}", p.kind, p.detail, crate::c17::describe(&nodes), o.to_json()),
                            replay: json!({"engine": "c19", "host_tree": crate::c17::tree_json(&nodes), "rule_per_line": nl, "options": o.to_json()}),
                        });
                    }
                }
            }
            return;
        }
        let (space, sheet, opts) = if i < a {
            let mb = i % 2 == 1;
            let k = i / 2;
            let chain = chain_unrank(k % nc, 1);
            let s = selector_sheet(d, k / nc, &chain);
            ("selectors", if mb { multibyte(s) } else { s }, &o_full)
        } else if i < a + b {
            let mut k = i - a;
            let f = (k % nf) as usize;
            k /= nf;
            let g = (k % gaps) as usize;
            k /= gaps;
            let s = multibyte(selector_sheet(1, k, &[]));
            if g >= s.pieces.len() {
                return;
            }
            ("selectors+line-fillers", with_line_filler(&s, g, f), &o_full)
        } else if i < a + b + c {
            let mut k = i - a - b;
            let mb = k % 2 == 1;
            k /= 2;
            let ws = k % 2 == 1;
            k /= 2;
            let cx = (k % nctx) as usize;
            k /= nctx;
            let s = value_sheet(cx, &[(k % nk) as usize, (k / nk) as usize], &[false, ws]);
            if s.pieces.is_empty() {
                return;
            }
            ("value-pairs", if mb { multibyte(s) } else { s }, &o_plain)
        } else {
            let mut k = i - a - b - c;
            let f = (k % nf) as usize;
            k /= nf;
            let g = (k % 14) as usize;
            k /= 14;
            let cx = (k % nctx) as usize;
            k /= nctx;
            let s = value_sheet(cx, &[(k % nk) as usize, (k / nk) as usize], &[false, true]);
            if s.pieces.is_empty() || g >= s.pieces.len() {
                return;
            }
            ("value-pairs+line-fillers", with_line_filler(&s, g, f), &o_plain)
        };
        rep.transitions += 1;
        match check_sheet(&sheet, opts) {
            Err(m) => rep.engine_error("C19", m),
            Ok(None) => rep.count("skipped:not-the-intended-tokens-or-C08-mismatch", 1),
            Ok(Some(problems)) => {
                rep.states += 1;
                rep.evaluations += 1;
                rep.count(&format!("space:{}", space), 1);
                let text = sheet.text();
                if text.contains('\n') || !text.is_ascii() {
                    rep.nontrivial_case(&text);
                }
                rep.outcome(&(problems.len(), text.len() / 4, text.matches('\n').count()));
                if i % 300_007 == 0 {
                    rep.sample(json!({"space": space, "input": text, "options": opts.to_json()}));
                }
                for p in problems {
                    rep.violation(Violation {
                        fingerprint: format!("C19|{}", p.kind),
                        what: format!("{}: {} — input {:?} options {}", p.kind, p.detail, text, opts.to_json()),
                        replay: json!({"engine": "c19", "input": text, "pieces": sheet.pieces.iter().map(|p| json!([p.text, format!("{:?}", p.role), p.ctx, p.micro.map(|m| format!("{:?}", m))])).collect::<Vec<_>>(), "options": opts.to_json()}),
                    });
                }
            }
        }
    });
    let res = rep.to_result(
        "C19",
        "C08's selector and value-pair sheets, plain and with a multi-byte / astral comment line in front and multi-byte class names and strings, plus every line-breaking / multi-byte filler at every gap; rewritten @import rules with every combination of conditions in three layouts (the closing bracket of a synthesised block must point where its opening bracket points); for every output token of the normal output: an entry at its UTF-16 column whose source position is the start of its input token (closing bracket: its own or its opener's; sign comment: the class it marks), original spelling as name for rewritten tokens; entries sorted; identical after JSON serialisation. non-trivial = the input has several lines or non-ASCII characters; distinct = distinct input",
        json!({"selector_depth": d, "wrapper_chain": 1, "line_fillers": LINE_FILLERS.iter().map(|f| f.iter().map(|x| x.0).collect::<String>()).collect::<Vec<_>>(), "token_kinds": KINDS.len(), "value_contexts": VALUE_CONTEXTS.len()}),
        true,
        &["cssparser tokenizer for output token boundaries", "sourcemap crate decodes the serialised map", "sheets on which the token streams disagree are C08's business and skipped here (counted)"],
        Map::new(),
    );
    write_result(result_path, &res);
}

pub fn replay(v: &Value) -> Value {
    silence_panics();
    if let Some(t) = v.get("import_sheet").and_then(|x| x.as_str()) {
        let go = || match check_import_sheet(t) {
            Ok(p) => p.into_iter().map(|x| format!("{}: {}", x.kind, x.detail)).collect::<Vec<_>>(),
            Err(m) => vec![m],
        };
        let (a, b) = (go(), go());
        return json!({"deterministic": a == b, "failure": if a.is_empty() { Value::Null } else { json!(a) }});
    }
    if v.get("host_tree").is_some() {
        let nodes = crate::c17::tree_from(&v["host_tree"]);
        let opts = Opts::from_json(&v["options"]);
        let nl = v["rule_per_line"].as_bool().unwrap_or(false);
        let go = || match check_host_tree(&nodes, &opts, nl) {
            Ok(Some(p)) => p.into_iter().map(|x| format!("{}: {}", x.kind, x.detail)).collect::<Vec<_>>(),
            Ok(None) => vec![],
            Err(m) => vec![m],
        };
        let (a, b) = (go(), go());
        return json!({"deterministic": a == b, "failure": if a.is_empty() { Value::Null } else { json!(a) }});
    }
    let mut sheet = Sheet::new();
    for p in v["pieces"].as_array().expect("pieces") {
        let role_s = p[1].as_str().unwrap();
        let role = match role_s {
            "Plain" => Role::Plain,
            "Class" => Role::Class,
            "Rpx" => Role::Rpx,
            "Comment" => Role::Comment,
            o => Role::Ws { must: o.contains("true") },
        };
        sheet.push(p[0].as_str().unwrap(), role, p[2].as_str().unwrap());
        if let Some(m) = p[3].as_str() {
            let id: u32 = m.trim_start_matches('(').split(',').next().unwrap().trim().parse().unwrap();
            sheet.pieces.last_mut().unwrap().micro = Some((id, if m.contains("UnicodeRange") { Micro::UnicodeRange } else { Micro::Nth }));
        }
    }
    let opts = Opts::from_json(&v["options"]);
    let go = || match check_sheet(&sheet, &opts) {
        Ok(Some(p)) => p.into_iter().map(|x| format!("{}: {}", x.kind, x.detail)).collect::<Vec<_>>(),
        Ok(None) => vec![],
        Err(m) => vec![m],
    };
    let (a, b) = (go(), go());
    json!({"deterministic": a == b, "failure": if a.is_empty() { Value::Null } else { json!(a) }})
}
