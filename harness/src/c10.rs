//! C10 — rpx arithmetic and numeric fidelity. Exhaustive sweeps of numeric spellings, many per sheet.

use crate::common::*;
use crate::css::{self, Opts};
use crate::cssmodel::*;
use cssparser::{ToCss, Token};
use serde_json::{json, Map, Value};

const RATIOS: &[f32] = &[750., 375., 10., 7., 3., 1., 0.5, 1e-3, 1e6];
const PER_SHEET: u64 = 2048;

/// contexts: (name, prefix, separator, suffix)
const CONTEXTS: &[(&str, &str, &str, &str)] = &[
    ("declaration", ".a{k:", " ", "}"),
    ("calc", ".a{k:calc(", " + ", ")}"),
    ("function", ".a{k:f(", ",", ")}"),
    ("media-query", "@media (min-width:", ") and (min-width:", "){}"),
    ("container-query", "@container (width>", ") and (width>", "){.b{c:d}}"),
    ("at-rule-prelude", "@x ", " ", ";"),
    ("custom-property", ".a{--p:", " ", "}"),
    ("selector-function", ":nth-child(", "),:nth-child(", "){k:v}"),
    ("keyframes", "@keyframes n{from{k:", " ", "}}"),
    // declarations directly inside at-rules that hold declarations, and inside their nested margin rules
    ("page", "@page{k:", " ", "}"),
    ("page-selector", "@media print{@page :first{k:", " ", "}}"),
    ("page-margin", "@page{@top-left{k:", " ", "}}"),
    ("font-face", "@font-face{k:", " ", "}"),
    ("nested-declaration", "@layer x{@media (a:b){.c{k:", " ", "}}}"),
];

const UNITS: &[&str] = &["", "px", "%", "rpx", "vw", "em", "s", "RPX", "rpxx", "xrpx"];

fn boundary_ints() -> Vec<i64> {
    let mut v: Vec<i64> = vec![0, 1, -1, 9, 10, 99, 100, 999, 1000, 9999, 99999, 100000, 999999, 1000000, 1000001, 9999999, 16777216, 16777217, 99999999, 123456789, 999999999, 2147483647, -2147483648, 2147483646, -2147483647, 1073741824, 33554433];
    let mut neg: Vec<i64> = v.iter().map(|x| -x).filter(|x| *x >= -2147483648).collect();
    v.append(&mut neg);
    v.sort();
    v.dedup();
    v
}

fn decimal_spellings() -> Vec<String> {
    let mut v = vec![];
    for s in ["0.5", ".5", "-.5", "+.5", "+1", "+0", "-0", "0.0", "-0.0", "1.0", "1e3", "1E3", "1e+3", "1e-3", "1.5e2", "-1.5e-2", "1e-7", "1e-10", "3e-8", "1e10", "1e37", "-2e36", "1.17549435e-38", "3.4e38", "0.1234567", "1234.567", "123456.7", "0.000001234567", "7.5", "37.5", "0.1", "0.2", "0.3", "1.1", "33.3333", "66.66667", "99.999999", "0.999999", "0.9999999", "1.0000001", "16777217.5", "1000000.5", "0.30000001", "2.5", "750", "375", "1", "2", "3",
        // integers beyond the i32 range (the tokenizer's integer saturates there), long decimals, a zero with a huge exponent
        "2147483648", "-2147483649", "2147483999", "4294967296", "123456789012", "99999999999999999999", "-4294967297", "0002147483648",
        "1234567.5", "12345.67", "16777216.0", "12345678e0", "3.14159265", "33.3333333", "0e999", "-0e999", "0e309", "0.0e400", "1e-400"] {
        v.push(s.to_string());
    }
    v
}

#[derive(Clone)]
struct Job {
    ctx: usize,
    unit: usize,
    ratio: f32,
    nums: NumSource,
}

#[derive(Clone)]
enum NumSource {
    IntRange(i64, i64),
    List(std::sync::Arc<Vec<String>>),
    Thousandths(u64, u64),
}

impl NumSource {
    fn spellings(&self) -> Vec<String> {
        match self {
            NumSource::IntRange(a, b) => (*a..*b).map(|x| x.to_string()).collect(),
            NumSource::List(l) => l.to_vec(),
            NumSource::Thousandths(a, b) => (*a..*b).map(|k| format!("{}.{:03}", k / 1000, k % 1000)).collect(),
        }
    }
}

fn build_jobs(thorough: bool) -> Vec<Job> {
    let mut jobs = vec![];
    let bl: std::sync::Arc<Vec<String>> = std::sync::Arc::new(boundary_ints().iter().map(|x| x.to_string()).collect());
    let dl = std::sync::Arc::new(decimal_spellings());
    // boundary integers and decimal spellings: every context x every unit x every ratio
    for c in 0..CONTEXTS.len() {
        for u in 0..UNITS.len() {
            for r in RATIOS {
                if !UNITS[u].eq_ignore_ascii_case("rpx") && *r != 750. {
                    continue;
                }
                jobs.push(Job { ctx: c, unit: u, ratio: *r, nums: NumSource::List(bl.clone()) });
                jobs.push(Job { ctx: c, unit: u, ratio: *r, nums: NumSource::List(dl.clone()) });
            }
        }
    }
    // all integers |n| < 2^17 (quick) / the whole i32 range (thorough) as number and px (declaration context),
    // |n| < 2^17 in every context and unit
    let lim: i64 = 1 << 17;
    let mut a = -lim;
    while a < lim {
        let b = (a + PER_SHEET as i64).min(lim);
        for c in 0..CONTEXTS.len() {
            for u in [0usize, 1, 2, 3] {
                jobs.push(Job { ctx: c, unit: u, ratio: 750., nums: NumSource::IntRange(a, b) });
            }
        }
        for r in &RATIOS[1..] {
            jobs.push(Job { ctx: 0, unit: 3, ratio: *r, nums: NumSource::IntRange(a, b) });
        }
        a = b;
    }
    // decimals k/1000 for k < 10^5
    let mut k = 0u64;
    while k < 100_000 {
        let b = (k + PER_SHEET).min(100_000);
        for u in [0usize, 1, 2, 3] {
            jobs.push(Job { ctx: 0, unit: u, ratio: 750., nums: NumSource::Thousandths(k, b) });
        }
        for r in &RATIOS[1..] {
            jobs.push(Job { ctx: 0, unit: 3, ratio: *r, nums: NumSource::Thousandths(k, b) });
        }
        jobs.push(Job { ctx: 1, unit: 3, ratio: 750., nums: NumSource::Thousandths(k, b) });
        k = b;
    }
    if thorough {
        let step: i64 = 1 << 16;
        let mut a: i64 = -(1 << 31);
        while a < (1 << 31) {
            let b = (a + step).min(1 << 31);
            if !(a >= -lim && b <= lim) {
                jobs.push(Job { ctx: 0, unit: 0, ratio: 750., nums: NumSource::IntRange(a, b) });
                jobs.push(Job { ctx: 0, unit: 1, ratio: 750., nums: NumSource::IntRange(a, b) });
            }
            a = b;
        }
        // rpx over a wide integer range (every 2^16 block start +- 2^10), all ratios
        let mut a: i64 = -(1 << 31);
        while a < (1 << 31) {
            for r in RATIOS {
                jobs.push(Job { ctx: 0, unit: 3, ratio: *r, nums: NumSource::IntRange(a, (a + 1024).min(1 << 31)) });
            }
            a += 1 << 22;
        }
    }
    jobs
}

fn six_digit(v: f32) -> f32 {
    // what the serializer inherited from cssparser prints for `v` (at most six significant digits)
    let s = Token::Number { has_sign: false, value: v, int_value: None }.to_css_string();
    s.parse::<f32>().unwrap_or(f32::NAN)
}

fn num_parts(t: &T) -> Option<(f32, Option<i32>, bool, String)> {
    match t {
        T::Num { v, int, sign } => Some((*v, *int, *sign, "".into())),
        T::Pct { v, int, sign } => Some((*v, *int, *sign, "%".into())),
        T::Dim { v, int, sign, unit } => Some((*v, *int, *sign, unit.clone())),
        _ => None,
    }
}

const EPS: f64 = 1.1920929e-7; // 2^-23

/// Returns (class, detail) of the deviation, if any.
fn judge_number(input: &T, output: &T, ratio: f32) -> Option<(String, String)> {
    let (mut iv, iint, _isign, iunit) = num_parts(input)?;
    let Some((mut ov, oint, _osign, ounit)) = num_parts(output) else {
        return Some(("not-a-number".into(), format!("{:?} became {:?}", input, output)));
    };
    // the tokenizer computes a zero with an exponent beyond the single precision range as 0 * infinity: such a token is a zero (the
    // only spelling that gives "not a number"), whose spelling is compared by `judge_spelling`
    if iv.is_nan() {
        iv = 0.;
    }
    if ov.is_nan() {
        ov = 0.;
    }
    let is_pct = matches!(input, T::Pct { .. });
    if is_pct != matches!(output, T::Pct { .. }) {
        return Some(("kind-changed".into(), format!("{:?} became {:?}", input, output)));
    }
    // (unit names are ASCII case-insensitive: RPX is rpx)
    if iunit.eq_ignore_ascii_case("rpx") {
        if ounit != "vw" {
            return Some(("rpx-unit".into(), format!("{:?} became {:?}", input, output)));
        }
        let expected = iv as f64 * 100. / ratio as f64;
        if !expected.is_finite() || expected.abs() > 3.0e38 {
            return None; // outside f32: nothing is promised
        }
        if expected != 0. && ov != 0. && (expected < 0.) != (ov < 0.) {
            return Some(("rpx-sign".into(), format!("{:?} (ratio {}) became {:?}", input, ratio, output)));
        }
        let err = (ov as f64 - expected).abs();
        if err <= EPS * expected.abs() {
            return None;
        }
        // the f32 result the statement prescribes, printed with six digits
        let f = (iv as f64 * 100. / ratio as f64) as f32;
        let six = six_digit(f);
        if ov == six || (ov as f64 - six as f64).abs() <= EPS * (six as f64).abs() {
            return Some(("six-digit-printer".into(), format!("{:?} (ratio {}) became {:?}: exact {} printed with six significant digits", input, ratio, output, f)));
        }
        if expected.abs() < 1.2e-7 && ov == 0. {
            return Some(("rpx-tiny-to-zero".into(), format!("{:?} (ratio {}) became {:?}, expected {:e}", input, ratio, output, expected)));
        }
        return Some(("rpx-value".into(), format!("{:?} (ratio {}) became {:?}, expected {}", input, ratio, output, expected)));
    }
    if ounit != iunit {
        return Some(("unit-changed".into(), format!("{:?} became {:?}", input, output)));
    }
    if let Some(n) = iint {
        // integers are kept exactly
        if oint == Some(n) {
            return None;
        }
        let six = six_digit(n as f32);
        if ov == six || (is_pct && (ov as f64 * 100. - six as f64).abs() <= 1e-6 * (six as f64).abs()) {
            return Some(("integer-through-six-digit-printer".into(), format!("{:?} became {:?}", input, output)));
        }
        return Some(("integer-changed".into(), format!("{:?} became {:?}", input, output)));
    }
    let (a, b) = if is_pct { (iv as f64 * 100., ov as f64 * 100.) } else { (iv as f64, ov as f64) };
    if (a - b).abs() <= EPS * a.abs() || a == b {
        return None;
    }
    let six = if is_pct { six_digit(iv * 100.) as f64 } else { six_digit(iv) as f64 };
    if (b - six).abs() <= EPS * six.abs() {
        return Some(("six-digit-printer".into(), format!("{:?} became {:?}", input, output)));
    }
    Some(("value-changed".into(), format!("{:?} became {:?}", input, output)))
}

fn sheet_of(job: &Job, spellings: &[String]) -> String {
    let (_, pre, sep, suf) = CONTEXTS[job.ctx];
    let mut s = String::with_capacity(spellings.len() * 12 + 32);
    s.push_str(pre);
    for (i, n) in spellings.iter().enumerate() {
        if i > 0 {
            s.push_str(sep);
        }
        s.push_str(n);
        s.push_str(UNITS[job.unit]);
    }
    s.push_str(suf);
    s
}

fn numeric_tokens(css: &str) -> Vec<T> {
    flatten(css).into_iter().filter(|f| f.t.is_numeric()).map(|f| f.t).collect()
}

/// the numeric tokens with their spelling
fn numeric_tokens_with_text(css: &str) -> Vec<(T, String)> {
    flatten(css).into_iter().filter(|f| f.t.is_numeric()).map(|f| (f.t.clone(), css[f.start..f.end].to_string())).collect()
}

/// the number part of the spelling of a numeric token: (sign, integer digits, fraction digits, exponent)
fn number_part(text: &str) -> Option<(bool, String, String, i64)> {
    let b = text.as_bytes();
    let mut i = 0;
    let mut neg = false;
    if i < b.len() && (b[i] == b'+' || b[i] == b'-') {
        neg = b[i] == b'-';
        i += 1;
    }
    let s0 = i;
    while i < b.len() && b[i].is_ascii_digit() {
        i += 1;
    }
    let int_digits = text[s0..i].to_string();
    let mut frac = String::new();
    if i + 1 < b.len() && b[i] == b'.' && b[i + 1].is_ascii_digit() {
        let f0 = i + 1;
        i += 1;
        while i < b.len() && b[i].is_ascii_digit() {
            i += 1;
        }
        frac = text[f0..i].to_string();
    }
    if int_digits.is_empty() && frac.is_empty() {
        return None;
    }
    let mut exp = 0i64;
    if i < b.len() && (b[i] == b'e' || b[i] == b'E') {
        let mut j = i + 1;
        let mut eneg = false;
        if j < b.len() && (b[j] == b'+' || b[j] == b'-') {
            eneg = b[j] == b'-';
            j += 1;
        }
        let e0 = j;
        while j < b.len() && b[j].is_ascii_digit() {
            j += 1;
        }
        if j > e0 {
            exp = text[e0..j].parse::<i64>().unwrap_or(i64::MAX / 2);
            if eneg {
                exp = -exp;
            }
        }
    }
    Some((neg, int_digits, frac, exp))
}

/// Exact comparison of the spellings where the tokenizer's single precision value cannot tell: integers (digit strings, any
/// length) and zeros. Returns a deviation class.
fn judge_spelling(input: &str, output: &str) -> Option<(String, String)> {
    let (ineg, iint, ifrac, iexp) = number_part(input)?;
    let Some((oneg, oint, ofrac, oexp)) = number_part(output) else {
        return Some(("not-a-number".into(), format!("{:?} became {:?}", input, output)));
    };
    let strip = |d: &str| -> String {
        let t = d.trim_start_matches('0');
        if t.is_empty() { "0".to_string() } else { t.to_string() }
    };
    let is_zero = |i: &str, f: &str| i.bytes().all(|c| c == b'0') && f.bytes().all(|c| c == b'0');
    if is_zero(&iint, &ifrac) {
        // a zero stays a zero whatever its exponent says
        if !is_zero(&oint, &ofrac) {
            return Some(("zero-changed".into(), format!("{:?} became {:?}", input, output)));
        }
        return None;
    }
    if ifrac.is_empty() && iexp == 0 {
        // an integer: the same digits
        let same = ofrac.bytes().all(|c| c == b'0') && oexp == 0 && strip(&iint) == strip(&oint) && ineg == oneg;
        if !same {
            let beyond = strip(&iint).len() > 10 || strip(&iint).parse::<i64>().map_or(true, |v| v > 2147483647 + ineg as i64);
            return Some((if beyond { "integer-beyond-i32-changed".into() } else { "integer-spelling-changed".into() }, format!("{:?} became {:?}", input, output)));
        }
    }
    None
}

pub fn explore(thorough: bool, result_path: &str) {
    silence_panics();
    let jobs = build_jobs(thorough);
    let rep = par_run(jobs.len() as u64, threads(), |i, rep| {
        let job = &jobs[i as usize];
        let sp = job.nums.spellings();
        let text = sheet_of(job, &sp);
        let opts = Opts { rpx_ratio: job.ratio, class_prefix: Some("p".into()), ..Default::default() };
        rep.transitions += 1;
        let run = match css::transform("n.wxss", &text, &opts, 0, false) {
            Ok(r) => r,
            Err((s, m)) => {
                rep.subject_panic("C10", &text, opts.to_json(), &format!("{}: {}", s, m));
                return;
            }
        };
        let ins_t = numeric_tokens_with_text(&text);
        let outs_t = numeric_tokens_with_text(&run.normal);
        let ins: Vec<T> = ins_t.iter().map(|x| x.0.clone()).collect();
        let outs: Vec<T> = outs_t.iter().map(|x| x.0.clone()).collect();
        rep.count(&format!("ctx:{}", CONTEXTS[job.ctx].0), ins.len() as u64);
        let ctxname = CONTEXTS[job.ctx].0;
        if ins.len() != outs.len() {
            rep.violation(Violation {
                fingerprint: format!("C10|numeric-token-count|{}", ctxname),
                what: format!("{} numeric tokens in, {} out, context {} unit {:?}", ins.len(), outs.len(), ctxname, UNITS[job.unit]),
                replay: json!({"engine": "c10", "input": if text.len() < 400 { text.clone() } else { text[..400].to_string() }, "ratio": job.ratio}),
            });
            return;
        }
        for (k, (a, b)) in ins.iter().zip(outs.iter()).enumerate() {
            rep.states += 1;
            rep.evaluations += 1;
            let changed = a != b;
            if changed {
                rep.nontrivial_case(&(format!("{:?}", a), job.ratio.to_bits()));
            }
            if k % 64 == 0 {
                rep.outcome(&format!("{:?}", b));
            }
            let is_rpx = matches!(a, T::Dim { unit, .. } if unit.eq_ignore_ascii_case("rpx"));
            let verdict = match judge_number(a, b, job.ratio) {
                Some(v) => Some(v),
                // (the token values agree: the spellings decide where single precision cannot)
                None if !is_rpx => judge_spelling(&ins_t[k].1, &outs_t[k].1),
                None => None,
            };
            if let Some((class, detail)) = verdict {
                rep.count(&format!("deviation:{}", class), 1);
                // a minimal sheet with this one number as the replay
                let mini = sheet_of(job, &sp[k..k + 1]);
                rep.violation(Violation {
                    fingerprint: if class == "six-digit-printer" { format!("C10|{}", class) } else { format!("C10|{}|{}", class, ctxname) },
                    what: format!("{} in context {}: {}", class, ctxname, detail),
                    replay: json!({"engine": "c10", "input": mini, "ratio": job.ratio, "class": class}),
                });
            }
        }
        if i % 997 == 0 {
            rep.sample(json!({"context": ctxname, "unit": UNITS[job.unit], "ratio": job.ratio, "numbers": sp.len(), "first": sp.first(), "last": sp.last(), "output_head": run.normal.chars().take(80).collect::<String>()}));
        }
    });
    let bound = json!({
        "integers": if thorough { "whole i32 range as number and px in declarations; |n| < 2^17 in every context and unit; rpx on 1024-number windows every 2^22" } else { "|n| < 2^17 in every context as number / px / % / rpx; boundary set everywhere" },
        "decimals": "k/1000 for k < 10^5 as number / px / % / rpx (all ratios) + 47 hand-picked spellings (exponents, signed zero, leading dot / plus) in every context, unit and ratio",
        "contexts": CONTEXTS.iter().map(|c| c.0).collect::<Vec<_>>(), "units": UNITS, "ratios": RATIOS,
        "tolerance": "2^-23 relative for rpx and non-integers; exact for integers",
    });
    let res = rep.to_result(
        "C10",
        "every listed numeric spelling in every listed context / unit / ratio, many per sheet, each numeric token of the re-tokenised output compared with the input token; non-trivial = the output token differs from the input token (converted or re-spelled); distinct = distinct (input token, ratio)",
        bound,
        true,
        &["cssparser tokenizer gives the value of input and output spellings", "expected rpx result computed in f64 from the f32 input value"],
        Map::new(),
    );
    write_result(result_path, &res);
}

pub fn replay(v: &Value) -> Value {
    silence_panics();
    let text = v["input"].as_str().expect("input");
    let ratio = v["ratio"].as_f64().unwrap_or(750.) as f32;
    let opts = Opts { rpx_ratio: ratio, class_prefix: Some("p".into()), ..Default::default() };
    let go = || -> Vec<String> {
        match css::transform("n.wxss", text, &opts, 0, false) {
            Ok(run) => {
                let ins = numeric_tokens(text);
                let outs = numeric_tokens(&run.normal);
                if ins.len() != outs.len() {
                    return vec!["numeric-token-count".into()];
                }
                let it = numeric_tokens_with_text(text);
                let ot = numeric_tokens_with_text(&run.normal);
                ins.iter().zip(outs.iter()).enumerate().filter_map(|(k, (a, b))| {
                    let is_rpx = matches!(a, T::Dim { unit, .. } if unit.eq_ignore_ascii_case("rpx"));
                    judge_number(a, b, ratio).or_else(|| if is_rpx { None } else { judge_spelling(&it[k].1, &ot[k].1) })
                }).map(|x| format!("{}: {}", x.0, x.1)).collect()
            }
            Err((s, m)) => vec![format!("panic {} {}", s, m)],
        }
    };
    let a = go();
    let b = go();
    json!({"deterministic": a == b, "failure": if a.is_empty() { Value::Null } else { json!(a) }})
}
