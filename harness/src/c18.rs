//! C18 — `@import` is replaced by a faithful placeholder.

use crate::common::*;
use crate::css::{self, Opts};
use crate::cssmodel::*;
use serde_json::{json, Map, Value};

const SIGMA_P: &[&str] = &["a", "/", ".", "*", "%", "'", "\"", "\\", " ", "é", "😀", "(", ")", ";", "2", "0", "F", "\n"];

#[derive(Clone, Copy, Debug, PartialEq)]
enum Form {
    Dq,
    Sq,
    Url,
    UrlDq,
}
const FORMS: &[Form] = &[Form::Dq, Form::Sq, Form::Url, Form::UrlDq];

fn spell(path: &str, form: Form) -> String {
    let esc_quoted = |q: char| -> String {
        let mut s = String::new();
        for c in path.chars() {
            if c == q || c == '\\' {
                s.push('\\');
                s.push(c);
            } else if c == '\n' {
                s.push_str("\\a ");
            } else {
                s.push(c);
            }
        }
        s
    };
    match form {
        Form::Dq => format!("\"{}\"", esc_quoted('"')),
        Form::Sq => format!("'{}'", esc_quoted('\'')),
        Form::UrlDq => format!("url(\"{}\")", esc_quoted('"')),
        Form::Url => {
            let mut s = String::from("url(");
            for c in path.chars() {
                if c == '\n' {
                    s.push_str("\\a ");
                } else if c.is_whitespace() || matches!(c, '"' | '\'' | '(' | ')' | '\\') {
                    s.push('\\');
                    s.push(c);
                } else {
                    s.push(c);
                }
            }
            s.push(')');
            s
        }
    }
}

const MEDIA: &[&str] = &["", "screen", "(w:1px)", "screen and (w:75rpx)", "all and (w:1px)", "all, print", "not all", "only screen and (color), print and (w:2px)",
    // a condition in function notation (the grammar's <general-enclosed>), at the start of the list and behind `and`
    "foo(b)", "(w:1px) and foo(b)"];
/// layer conditions: none, a plain name, a dotted name, the bare keyword
/// supports() conditions: none, a declaration, a negation, a conjunction, a selector() test with a class and an rpx length
const SUPPORTS: &[&str] = &["", "d:v", "not (d:v)", "(a:b) and (c:1rpx)", "selector(.s > t)"];
/// spelling of the two condition functions (function names are ASCII case-insensitive)
const FN_CASE: &[(&str, &str)] = &[("layer", "supports"), ("LAYER", "Supports")];
const LAYERS: &[(&str, &str)] = &[("", ""), (" layer(x)", "x"), (" layer(a.b.c)", "a.b.c"), (" layer", "")];
const POSITIONS: &[(&str, &str)] = &[
    ("first", ""),
    ("after-import", "@import \"z\";"),
    ("after-rule", ".r{k:v}"),
    ("after-media-block", "@media screen{.r{k:v}}"),
    ("after-layer-block", "@layer base{.r{k:v}}"),
    ("after-layer-statement-and-rule", "@layer base;.r{k:v}"),
    ("after-font-face", "@font-face{k:v}"),
    // with convert_host on: the rule leaves nothing in the normal output, it is a preceding rule all the same
    ("after-converted-host-rule", ":host{k:v}"),
    // two imports in a row after a rule: both are misplaced
    ("after-rule-and-import", ".r{k:v}@import \"z\";"),
    // the same file imported twice (the prefix is the same import without conditions): two placeholders
    ("after-the-same-import", "<the same import>"),
    // a byte order mark is not part of the sheet: the import is the first rule
    ("after-byte-order-mark", "\u{FEFF}"),
    // `<!--` and `-->` between rules are ignored by CSS: the import behind them is a rule of its own, and after `<!--` alone it is the first
    ("after-cdo", "<!--"),
    ("after-rule-and-cdc", ".r{k:v}-->"),
];

fn percent_decode(s: &str) -> Option<String> {
    let b = s.as_bytes();
    let mut out = vec![];
    let mut i = 0;
    while i < b.len() {
        if b[i] == b'%' {
            if i + 2 >= b.len() {
                return None;
            }
            let h = std::str::from_utf8(&b[i + 1..i + 3]).ok()?;
            out.push(u8::from_str_radix(h, 16).ok()?);
            i += 3;
        } else {
            out.push(b[i]);
            i += 1;
        }
    }
    String::from_utf8(out).ok()
}

struct Case {
    text: String,
    path: String,
    form: Form,
    layer: usize,
    supports: usize,
    media: usize,
    pos: usize,
    sign: bool,
    trailing_rule: bool,
    /// a class prefix is configured as well (layer names are not class names)
    prefix: bool,
}

fn make_case(path: &str, form: Form, layer: usize, supports: usize, media: usize, pos: usize, sign: bool, trailing_rule: bool, prefix: bool) -> Case {
    let mut t = String::new();
    if POSITIONS[pos].0 == "after-the-same-import" {
        t.push_str("@import ");
        t.push_str(&spell(path, form));
        t.push(';');
    } else {
        t.push_str(POSITIONS[pos].1);
    }
    // (at-rule names are ASCII case-insensitive: half of the spellings write @IMPORT)
    t.push_str(if matches!(form, Form::Sq | Form::UrlDq) { "@IMPORT " } else { "@import " });
    t.push_str(&spell(path, form));
    // half of the spellings write the condition functions in upper / mixed case
    let names = FN_CASE[if matches!(form, Form::Sq | Form::UrlDq) { 1 } else { 0 }];
    t.push_str(&LAYERS[layer].0.replace("layer", names.0));
    if supports != 0 {
        t.push_str(" ");
        t.push_str(names.1);
        t.push_str("(");
        t.push_str(SUPPORTS[supports]);
        t.push(')');
    }
    if !MEDIA[media].is_empty() {
        t.push(' ');
        t.push_str(MEDIA[media]);
    }
    t.push(';');
    if trailing_rule {
        t.push_str(".t{k:v}");
    }
    Case { text: t, path: path.to_string(), form, layer, supports, media, pos, sign, trailing_rule, prefix }
}

fn nonws(css: &str) -> Vec<T> {
    flatten(css).into_iter().filter(|f| !f.t.is_ws()).map(|f| f.t).collect()
}

/// expected tokens of a pass-through fragment under the documented rewrites (rpx only; no classes used with prefix here)
fn passthrough(fragment: &str, opts: &Opts) -> Vec<T> {
    let toks: Vec<T> = nonws(fragment).into_iter().filter(|t| !matches!(t, T::Comment(_))).collect();
    let mut out: Vec<T> = vec![];
    for (i, t) in toks.iter().enumerate() {
        out.push(match t {
            T::Dim { v, sign, unit, .. } if unit == "rpx" => T::Dim { v: rpx_expected(*v, opts.rpx_ratio), int: None, sign: *sign, unit: "vw".into() },
            // with a class prefix: the fragments of this alphabet write every class selector as a dot that does not follow
            // an identifier (`.r`, `.s`, `.t`); a dot after an identifier only occurs in the dotted layer name `a.b.c`
            T::Ident(x) if opts.class_prefix.is_some() && i >= 1 && toks[i - 1] == T::Delim('.') && !(i >= 2 && matches!(toks[i - 2], T::Ident(_))) => {
                T::Ident(format!("{}--{}", opts.class_prefix.as_ref().unwrap(), x))
            }
            _ => t.clone(),
        });
    }
    out
}

fn check(c: &Case) -> Result<Option<Vec<(String, String)>>, String> {
    // the model's path must be what the spelling denotes (trusted tokenizer)
    let sp = spell(&c.path, c.form);
    let toks = nonws(&sp);
    let denoted = match (c.form, toks.as_slice()) {
        (Form::Dq | Form::Sq, [T::Str(s)]) => s.clone(),
        (Form::Url, [T::Url(s)]) => s.clone(),
        (Form::UrlDq, [T::Func(f), T::Str(s), T::CloseParen]) if f == "url" => s.clone(),
        _ => return Ok(None),
    };
    if denoted != c.path {
        return Ok(None);
    }
    let conv = POSITIONS[c.pos].0 == "after-converted-host-rule";
    let opts = Opts { import_sign: if c.sign { Some("I".into()) } else { None }, convert_host: conv, class_prefix: if c.prefix { Some("p".into()) } else { None }, ..Default::default() };
    let run = css::transform("i.wxss", &c.text, &opts, 0, false).map_err(|(s, m)| crate::common::panic_err(&c.text, &opts.to_json(), &s, &m))?;
    let act: Vec<T> = nonws(&run.normal);
    let mut problems = vec![];
    let mut exp: Vec<T> = vec![];
    if !c.sign {
        exp = passthrough(if conv { &c.text[POSITIONS[c.pos].1.len()..] } else { c.text.strip_prefix('\u{FEFF}').unwrap_or(&c.text) }, &opts);
    } else {
        if c.pos == 1 {
            exp.push(T::Comment("I z".into()));
        } else if POSITIONS[c.pos].0 == "after-the-same-import" {
            exp.push(T::Comment("<placeholder>".into()));
        } else if POSITIONS[c.pos].0 == "after-byte-order-mark" {
            // nothing of the mark reaches the output
        } else if POSITIONS[c.pos].0 == "after-rule-and-import" {
            exp.extend(passthrough(".r{k:v}", &opts));
            exp.push(T::Comment("I z".into()));
        } else if !conv {
            exp.extend(passthrough(POSITIONS[c.pos].1, &opts));
        }
        let mut closers = 0;
        if c.layer != 0 {
            exp.push(T::AtKw(FN_CASE[if matches!(c.form, Form::Sq | Form::UrlDq) { 1 } else { 0 }].0.into()));
            exp.extend(passthrough(LAYERS[c.layer].1, &opts));
            exp.push(T::OpenCurly);
            closers += 1;
        }
        if c.supports != 0 {
            exp.push(T::AtKw(FN_CASE[if matches!(c.form, Form::Sq | Form::UrlDq) { 1 } else { 0 }].1.into()));
            exp.push(T::OpenParen);
            exp.extend(passthrough(SUPPORTS[c.supports], &opts));
            exp.push(T::CloseParen);
            exp.push(T::OpenCurly);
            closers += 1;
        }
        if !MEDIA[c.media].is_empty() {
            exp.push(T::AtKw("media".into()));
            exp.extend(passthrough(MEDIA[c.media], &opts));
            exp.push(T::OpenCurly);
            closers += 1;
        }
        exp.push(T::Comment("<placeholder>".into()));
        for _ in 0..closers {
            exp.push(T::CloseCurly);
        }
        if c.trailing_rule {
            exp.extend(passthrough(".t{k:v}", &opts));
        }
    }
    let n = exp.len().max(act.len());
    for i in 0..n {
        match (exp.get(i), act.get(i)) {
            (Some(T::Comment(p)), Some(T::Comment(a))) if p == "<placeholder>" => {
                let ok = a.strip_prefix("I ").and_then(percent_decode).map(|d| d == c.path).unwrap_or(false);
                if !ok {
                    problems.push(("placeholder-does-not-decode-to-the-path".to_string(), format!("comment {:?} for path {:?}", a, c.path)));
                    break;
                }
            }
            (Some(e), Some(a)) if tok_eq(a, e, 1e-4) => {}
            (e, a) => {
                let kind = match (e, a) {
                    (Some(T::Comment(p)), _) if p == "<placeholder>" => "placeholder-missing",
                    (Some(_), None) => "output-too-short",
                    (None, Some(_)) => "output-has-extra-tokens",
                    _ => "token-mismatch",
                };
                problems.push((kind.to_string(), format!("token {}: expected {:?}, got {:?}; output {:?}", i, e, a, run.normal)));
                break;
            }
        }
    }
    if !run.low.is_empty() && !conv {
        problems.push(("low-priority-output-not-empty".into(), run.low.clone()));
    }
    if c.sign {
        let flagged = run.warnings.iter().filter(|w| w.kind.contains("@import")).count();
        let others = run.warnings.len() - flagged;
        if c.pos == 0 && flagged != 0 {
            problems.push(("import-at-top-flagged".into(), format!("{} warnings", flagged)));
        }
        let misplaced = if c.pos < 2 || POSITIONS[c.pos].0 == "after-byte-order-mark" || POSITIONS[c.pos].0 == "after-cdo" { 0 } else if POSITIONS[c.pos].0 == "after-rule-and-import" { 2 } else { 1 };
        // (whether an import that follows only imports is flagged is not asserted)
        if c.pos >= 2 && POSITIONS[c.pos].0 != "after-the-same-import" && POSITIONS[c.pos].0 != "after-cdo" && flagged != misplaced {
            problems.push(("import-after-rule-not-flagged".into(), format!("position {}: {} imports stand after another rule, {} are flagged", POSITIONS[c.pos].0, misplaced, flagged)));
        }
        if others != 0 {
            problems.push(("unexpected-warning".into(), format!("{:?}", run.warnings)));
        }
    } else if !run.warnings.is_empty() {
        problems.push(("unexpected-warning".into(), format!("{:?}", run.warnings)));
    }
    Ok(Some(problems))
}

fn case_of(i: u64, maxlen: u32) -> Case {
    // index layout: [path][form][layer][supports][media][pos][sign][trailing][prefix]
    let mut k = i;
    let prefix = k % 2 == 1;
    k /= 2;
    let trailing = k % 2 == 1;
    k /= 2;
    let sign = k % 2 == 0;
    k /= 2;
    let pos = (k % POSITIONS.len() as u64) as usize;
    k /= POSITIONS.len() as u64;
    let media = (k % MEDIA.len() as u64) as usize;
    k /= MEDIA.len() as u64;
    let supports = (k % SUPPORTS.len() as u64) as usize;
    k /= SUPPORTS.len() as u64;
    let layer = (k % LAYERS.len() as u64) as usize;
    k /= LAYERS.len() as u64;
    let form = FORMS[(k % 4) as usize];
    k /= 4;
    let idx = str_unrank(k, SIGMA_P.len() as u64, maxlen);
    let path: String = idx.iter().map(|x| SIGMA_P[*x]).collect();
    make_case(&path, form, layer, supports, media, pos, sign, trailing, prefix)
}

pub fn explore(thorough: bool, result_path: &str) {
    silence_panics();
    let maxlen = if thorough { 4 } else { 3 };
    let npaths = str_space_size(SIGMA_P.len() as u64, maxlen);
    let per_path = 4 * LAYERS.len() as u64 * SUPPORTS.len() as u64 * MEDIA.len() as u64 * POSITIONS.len() as u64 * 2 * 2 * 2;
    // quick: paths of length <= 3 with the full condition cube only for length <= 2; longer paths with a reduced cube
    let full = if thorough { str_space_size(SIGMA_P.len() as u64, 3) } else { str_space_size(SIGMA_P.len() as u64, 2) };
    let reduced_per_path: u64 = 4 * 2; // form x sign, with one fixed condition set
    let total = full * per_path + (npaths - full) * reduced_per_path;
    let rep = par_run(total, threads(), |i, rep| {
        let c = if i < full * per_path {
            case_of(i, maxlen)
        } else {
            let k = i - full * per_path;
            let p = full + k / reduced_per_path;
            let r = k % reduced_per_path;
            let idx = str_unrank(p, SIGMA_P.len() as u64, maxlen);
            let path: String = idx.iter().map(|x| SIGMA_P[*x]).collect();
            make_case(&path, FORMS[(r % 4) as usize], 1, 0, 3, if r / 4 == 0 { 0 } else { 2 }, r / 4 == 0 || true, false, false)
        };
        rep.transitions += 1;
        match check(&c) {
            Err(m) => rep.engine_error("C18", m),
            Ok(None) => rep.count("skipped:spelling-does-not-denote-the-path", 1),
            Ok(Some(problems)) => {
                rep.states += 1;
                rep.evaluations += 1;
                if c.sign {
                    rep.nontrivial_case(&c.text);
                }
                rep.outcome(&(c.layer, c.supports, c.media, c.pos, c.sign, problems.len(), c.path.len()));
                if i % 200_003 == 0 {
                    rep.sample(json!({"input": c.text, "path": c.path, "sign": c.sign}));
                }
                for (kind, detail) in problems {
                    let form = format!("{:?}", c.form);
                    rep.violation(Violation {
                        fingerprint: format!("C18|{}|form={}|sign={}", kind, if c.form == Form::Url || c.form == Form::UrlDq { "url" } else { "string" }, c.sign),
                        what: format!("{} for {:?} (form {}, position {}): {}", kind, c.text, form, POSITIONS[c.pos].0, detail.chars().take(400).collect::<String>()),
                        replay: json!({"engine": "c18", "path": c.path, "form": form, "layer": c.layer, "supports": c.supports, "media": c.media, "pos": c.pos, "sign": c.sign, "trailing": c.trailing_rule, "prefix": c.prefix, "input": c.text}),
                    });
                }
            }
        }
    });
    let res = rep.to_result(
        "C18",
        "every import path over the 18-symbol alphabet up to the stated length, in string / url forms, with every combination of layer() / supports() / media conditions at every listed position, with and without an import sign, with and without a class prefix; non-trivial = an import sign is configured; distinct = distinct input text",
        json!({"path_alphabet": SIGMA_P, "path_length_full_cube": if thorough {3} else {2}, "path_length_reduced_cube": maxlen, "forms": ["\"…\"", "'…'", "url(…)", "url(\"…\")"], "media": MEDIA, "supports_conditions": SUPPORTS, "layer_conditions": LAYERS.iter().map(|l| l.0).collect::<Vec<_>>(), "positions": POSITIONS.iter().map(|p| p.0).collect::<Vec<_>>()}),
        true,
        &["cssparser tokenizer gives the path a spelling denotes and the tokens of the output", "an independent percent-decoder recovers the path from the placeholder"],
        Map::new(),
    );
    write_result(result_path, &res);
}

pub fn replay(v: &Value) -> Value {
    silence_panics();
    let form = match v["form"].as_str().unwrap_or("Dq") {
        "Sq" => Form::Sq,
        "Url" => Form::Url,
        "UrlDq" => Form::UrlDq,
        _ => Form::Dq,
    };
    let c = make_case(v["path"].as_str().unwrap(), form, v["layer"].as_u64().unwrap() as usize, v["supports"].as_u64().unwrap() as usize, v["media"].as_u64().unwrap() as usize, v["pos"].as_u64().unwrap() as usize, v["sign"].as_bool().unwrap(), v["trailing"].as_bool().unwrap(), v["prefix"].as_bool().unwrap_or(false));
    let go = || match check(&c) {
        Ok(Some(p)) => p.into_iter().map(|x| format!("{}: {}", x.0, x.1)).collect::<Vec<_>>(),
        Ok(None) => vec![],
        Err(m) => vec![m],
    };
    let (a, b) = (go(), go());
    json!({"deterministic": a == b, "failure": if a.is_empty() { Value::Null } else { json!(a) }})
}
