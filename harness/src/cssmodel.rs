//! Stylesheet model: sheets are built from *pieces* (one token each) that carry the role the
//! model assigned to them; the expected output token list is computed from the roles, the actual
//! output is re-tokenised with cssparser (the trusted tokenizer on both sides).

use cssparser::{Parser, ParserInput, Token};

/// Owned token representation (flattened: blocks become open / close tokens).
#[derive(Clone, Debug, PartialEq)]
pub enum T {
    Ident(String),
    AtKw(String),
    Hash(String),
    IdHash(String),
    Str(String),
    Url(String),
    BadUrl(String),
    BadStr(String),
    Delim(char),
    Num { v: f32, int: Option<i32>, sign: bool },
    Pct { v: f32, int: Option<i32>, sign: bool },
    Dim { v: f32, int: Option<i32>, sign: bool, unit: String },
    Ws,
    Comment(String),
    Colon,
    Semi,
    Comma,
    IncludeMatch,
    DashMatch,
    PrefixMatch,
    SuffixMatch,
    SubstringMatch,
    Cdo,
    Cdc,
    Func(String),
    OpenParen,
    OpenSquare,
    OpenCurly,
    CloseParen,
    CloseSquare,
    CloseCurly,
    /// a block that ends at EOF without its closing token
    MissingClose,
}

impl T {
    pub fn from_token(t: &Token) -> T {
        match t {
            Token::Ident(x) => T::Ident(x.to_string()),
            Token::AtKeyword(x) => T::AtKw(x.to_string()),
            Token::Hash(x) => T::Hash(x.to_string()),
            Token::IDHash(x) => T::IdHash(x.to_string()),
            Token::QuotedString(x) => T::Str(x.to_string()),
            Token::UnquotedUrl(x) => T::Url(x.to_string()),
            Token::BadUrl(x) => T::BadUrl(x.to_string()),
            Token::BadString(x) => T::BadStr(x.to_string()),
            Token::Delim(c) => T::Delim(*c),
            Token::Number { has_sign, value, int_value } => T::Num { v: *value, int: *int_value, sign: *has_sign },
            Token::Percentage { has_sign, unit_value, int_value } => T::Pct { v: *unit_value, int: *int_value, sign: *has_sign },
            Token::Dimension { has_sign, value, int_value, unit } => T::Dim { v: *value, int: *int_value, sign: *has_sign, unit: unit.to_string() },
            Token::WhiteSpace(_) => T::Ws,
            Token::Comment(x) => T::Comment(x.to_string()),
            Token::Colon => T::Colon,
            Token::Semicolon => T::Semi,
            Token::Comma => T::Comma,
            Token::IncludeMatch => T::IncludeMatch,
            Token::DashMatch => T::DashMatch,
            Token::PrefixMatch => T::PrefixMatch,
            Token::SuffixMatch => T::SuffixMatch,
            Token::SubstringMatch => T::SubstringMatch,
            Token::CDO => T::Cdo,
            Token::CDC => T::Cdc,
            Token::Function(x) => T::Func(x.to_string()),
            Token::ParenthesisBlock => T::OpenParen,
            Token::SquareBracketBlock => T::OpenSquare,
            Token::CurlyBracketBlock => T::OpenCurly,
            Token::CloseParenthesis => T::CloseParen,
            Token::CloseSquareBracket => T::CloseSquare,
            Token::CloseCurlyBracket => T::CloseCurly,
        }
    }
    pub fn is_ws(&self) -> bool {
        matches!(self, T::Ws)
    }
    pub fn is_numeric(&self) -> bool {
        matches!(self, T::Num { .. } | T::Pct { .. } | T::Dim { .. })
    }
    pub fn short(&self) -> String {
        format!("{:?}", self)
    }
}

#[derive(Clone, Debug)]
pub struct FTok {
    pub t: T,
    pub start: usize,
    pub end: usize,
    pub line: u32,
    /// UTF-16 column, zero based
    pub col: u32,
}

fn flatten_into(p: &mut Parser, out: &mut Vec<FTok>, src: &str, depth: u32) {
    loop {
        let loc = p.current_source_location();
        let start = p.position().byte_index();
        let tok = match p.next_including_whitespace_and_comments() {
            Ok(t) => t.clone(),
            Err(_) => break,
        };
        let end = p.position().byte_index();
        out.push(FTok { t: T::from_token(&tok), start, end, line: loc.line, col: loc.column - 1 });
        let close = match tok {
            Token::Function(_) | Token::ParenthesisBlock => Some((T::CloseParen, b')')),
            Token::SquareBracketBlock => Some((T::CloseSquare, b']')),
            Token::CurlyBracketBlock => Some((T::CloseCurly, b'}')),
            _ => None,
        };
        if let Some((ct, cb)) = close {
            if depth < 200 {
                let _ = p.parse_nested_block::<_, (), ()>(|p2| {
                    flatten_into(p2, out, src, depth + 1);
                    Ok(())
                });
            }
            let end = p.position().byte_index();
            let loc2 = p.current_source_location();
            if end > 0 && src.as_bytes().get(end - 1) == Some(&cb) && end > start + 1 {
                out.push(FTok { t: ct, start: end - 1, end, line: loc2.line, col: loc2.column.saturating_sub(2) });
            } else {
                out.push(FTok { t: T::MissingClose, start: end, end, line: loc2.line, col: loc2.column.saturating_sub(1) });
            }
        }
    }
}

/// Tokenise a whole sheet into a flat list (white space and comments included).
pub fn flatten(src: &str) -> Vec<FTok> {
    let mut input = ParserInput::new(src);
    let mut p = Parser::new(&mut input);
    let mut out = vec![];
    flatten_into(&mut p, &mut out, src, 0);
    out
}

/// Role the model assigned to a piece.
#[derive(Clone, Debug, PartialEq)]
pub enum Role {
    /// copied (token-equal) into the output
    Plain,
    /// class name in selector context: prefixed when a prefix is configured, preceded by the sign comment
    Class,
    /// a dimension with unit rpx: converted
    Rpx,
    /// white space; `must` = it carries meaning and has to survive
    Ws { must: bool },
    /// a comment: removed
    Comment,
}

#[derive(Clone, Debug)]
pub struct Piece {
    pub text: String,
    pub role: Role,
    /// index of the micro-syntax span this piece belongs to (no white space may be inserted inside, denotation compared)
    pub micro: Option<(u32, Micro)>,
    /// context label for reports
    pub ctx: String,
}

#[derive(Clone, Copy, Debug, PartialEq)]
pub enum Micro {
    UnicodeRange,
    Nth,
}

#[derive(Clone, Debug, Default)]
pub struct Sheet {
    pub pieces: Vec<Piece>,
    next_micro: u32,
}

impl Sheet {
    pub fn new() -> Self {
        Default::default()
    }
    pub fn push(&mut self, text: &str, role: Role, ctx: &str) {
        self.pieces.push(Piece { text: text.to_string(), role, micro: None, ctx: ctx.to_string() });
    }
    pub fn plain(&mut self, text: &str, ctx: &str) {
        self.push(text, Role::Plain, ctx)
    }
    pub fn ws(&mut self, must: bool, ctx: &str) {
        self.push(" ", Role::Ws { must }, ctx)
    }
    pub fn micro_span(&mut self, kind: Micro, texts: &[&str], ctx: &str) {
        let id = self.next_micro;
        self.next_micro += 1;
        for t in texts {
            self.pieces.push(Piece { text: t.to_string(), role: Role::Plain, micro: Some((id, kind)), ctx: ctx.to_string() });
        }
    }
    pub fn text(&self) -> String {
        self.pieces.iter().map(|p| p.text.as_str()).collect()
    }
}

/// An expected output token with its white-space obligations.
#[derive(Clone, Debug)]
pub struct Exp {
    pub t: T,
    /// index of the source piece
    pub piece: usize,
    pub must_ws_before: bool,
    pub no_ws_before: bool,
    /// the input has a white-space piece between the previous token and this one
    pub had_ws_before: bool,
    pub is_class_rewrite: bool,
    pub is_sign: bool,
}

pub fn rpx_expected(v: f32, ratio: f32) -> f32 {
    v * 100. / ratio
}

/// Tokenise each piece on its own and check that the concatenation tokenises to the same
/// sequence (otherwise the printed sheet is not the sheet the model means and is skipped).
/// Returns per piece its token.
pub fn piece_tokens(sheet: &Sheet, whole: &[FTok]) -> Option<Vec<T>> {
    let mut out = Vec::with_capacity(sheet.pieces.len());
    for p in &sheet.pieces {
        let f = flatten(&p.text);
        // a piece is one token, or an opener (function / bracket) which flattens to open + MissingClose
        let t = match f.len() {
            1 => f[0].t.clone(),
            2 if matches!(f[1].t, T::MissingClose) => f[0].t.clone(),
            _ => return None,
        };
        out.push(t);
    }
    if whole.len() != out.len() {
        return None;
    }
    for (a, b) in whole.iter().zip(out.iter()) {
        if &a.t != b {
            // closers tokenise alone as Close*, inside the sheet as Close* too; numeric NaN never occurs
            return None;
        }
    }
    Some(out)
}

pub struct ExpectOpts<'a> {
    pub class_prefix: Option<&'a str>,
    pub class_prefix_sign: Option<&'a str>,
    pub rpx_ratio: f32,
}

/// Expected non-white-space output tokens for a sheet without `:host` / `@import` rewrites.
pub fn expected(sheet: &Sheet, toks: &[T], o: &ExpectOpts) -> Vec<Exp> {
    let mut out: Vec<Exp> = vec![];
    let mut pending_must = false;
    let mut pending_ws = false;
    let mut prev_micro: Option<u32> = None;
    for (i, (p, t)) in sheet.pieces.iter().zip(toks.iter()).enumerate() {
        match &p.role {
            Role::Ws { must } => {
                if *must {
                    pending_must = true;
                }
                pending_ws = true;
                continue;
            }
            Role::Comment => continue,
            _ => {}
        }
        let had_ws = pending_ws;
        pending_ws = false;
        let cur_micro = p.micro.map(|m| m.0);
        let no_ws = cur_micro.is_some() && cur_micro == prev_micro;
        prev_micro = cur_micro;
        let mut must = pending_must;
        pending_must = false;
        match &p.role {
            Role::Class => {
                if let Some(sign) = o.class_prefix_sign {
                    out.push(Exp { t: T::Comment(sign.to_string()), piece: i, must_ws_before: must, no_ws_before: false, had_ws_before: had_ws, is_class_rewrite: false, is_sign: true });
                    must = false;
                }
                let name = match t {
                    T::Ident(n) => n.clone(),
                    _ => unreachable!("class piece is not an ident"),
                };
                let t2 = match o.class_prefix {
                    Some(pf) => T::Ident(format!("{}--{}", pf, name)),
                    None => T::Ident(name),
                };
                out.push(Exp { t: t2, piece: i, must_ws_before: must, no_ws_before: false, had_ws_before: had_ws, is_class_rewrite: o.class_prefix.is_some(), is_sign: false });
            }
            Role::Rpx => {
                let t2 = match t {
                    T::Dim { v, sign, .. } => T::Dim { v: rpx_expected(*v, o.rpx_ratio), int: None, sign: *sign, unit: "vw".into() },
                    _ => unreachable!("rpx piece is not a dimension"),
                };
                out.push(Exp { t: t2, piece: i, must_ws_before: must, no_ws_before: no_ws, had_ws_before: had_ws, is_class_rewrite: false, is_sign: false });
            }
            _ => {
                out.push(Exp { t: t.clone(), piece: i, must_ws_before: must, no_ws_before: no_ws, had_ws_before: had_ws, is_class_rewrite: false, is_sign: false });
            }
        }
    }
    out
}

/// Actual output: non-white-space tokens with a flag "white space before".
#[derive(Clone, Debug)]
pub struct Act {
    pub t: T,
    pub ws_before: bool,
    pub start: usize,
    pub end: usize,
    pub line: u32,
    pub col: u32,
}

pub fn actual(output: &str) -> Vec<Act> {
    let mut out = vec![];
    let mut ws = false;
    for f in flatten(output) {
        if f.t.is_ws() {
            ws = true;
            continue;
        }
        out.push(Act { t: f.t, ws_before: ws, start: f.start, end: f.end, line: f.line, col: f.col });
        ws = false;
    }
    out
}

pub fn close_f32(a: f32, b: f32, rel: f32) -> bool {
    if a == b {
        return true;
    }
    if a.is_nan() && b.is_nan() {
        return true;
    }
    (a - b).abs() <= rel * b.abs().max(a.abs())
}

/// Token equality with numeric tolerance `rel` (C08 uses a loose one; exactness of non-integers is C10's job).
/// Two integer-valued tokens that were not rewritten must be the same integer: anything else is another token.
pub fn tok_eq(a: &T, e: &T, rel: f32) -> bool {
    match (a, e) {
        (T::Num { int: Some(i1), .. }, T::Num { int: Some(i2), .. }) => i1 == i2,
        (T::Pct { int: Some(i1), .. }, T::Pct { int: Some(i2), .. }) => i1 == i2,
        (T::Dim { int: Some(i1), unit: u1, .. }, T::Dim { int: Some(i2), unit: u2, .. }) if u1 == u2 && u1 != "vw" => i1 == i2,
        (T::Num { v: a1, sign: s1, .. }, T::Num { v: b1, sign: s2, .. }) => close_f32(*a1, *b1, rel) && (s1 == s2 || true),
        (T::Pct { v: a1, .. }, T::Pct { v: b1, .. }) => close_f32(*a1, *b1, rel),
        (T::Dim { v: a1, unit: u1, .. }, T::Dim { v: b1, unit: u2, .. }) => close_f32(*a1, *b1, rel) && u1 == u2,
        _ => a == e,
    }
}

#[derive(Debug, Clone)]
pub enum Mismatch {
    /// token i: expected e, got a (or end of output)
    Token { index: usize, expected: Option<Exp>, actual: Option<T> },
    MissingWs { index: usize, expected: Exp },
    ExtraWsInMicro { index: usize, expected: Exp },
}

pub fn compare(exp: &[Exp], act: &[Act], rel: f32) -> Option<Mismatch> {
    let n = exp.len().max(act.len());
    for i in 0..n {
        match (exp.get(i), act.get(i)) {
            (Some(e), Some(a)) => {
                if !tok_eq(&a.t, &e.t, rel) {
                    return Some(Mismatch::Token { index: i, expected: Some(e.clone()), actual: Some(a.t.clone()) });
                }
                if e.must_ws_before && !a.ws_before {
                    return Some(Mismatch::MissingWs { index: i, expected: e.clone() });
                }
                if e.no_ws_before && a.ws_before {
                    return Some(Mismatch::ExtraWsInMicro { index: i, expected: e.clone() });
                }
            }
            (e, a) => return Some(Mismatch::Token { index: i, expected: e.cloned(), actual: a.map(|x| x.t.clone()) }),
        }
    }
    None
}
