mod ast;
mod batch;
mod c01;
mod c08;
mod c10;
mod c17;
mod c18;
mod c19;
mod c20;
mod cssgen;
mod cssmodel;
mod common;
mod corpus;
mod css;
mod tmpl;

use serde_json::Value;

fn arg_after(args: &[String], flag: &str) -> Option<String> {
    args.iter().position(|a| a == flag).and_then(|i| args.get(i + 1)).cloned()
}

fn main() {
    let args: Vec<String> = std::env::args().collect();
    let cmd = args.get(1).map(|s| s.as_str()).unwrap_or("");
    let thorough = arg_after(&args, "--tier").map(|t| t == "thorough").unwrap_or(false);
    let out = arg_after(&args, "--out").unwrap_or_else(|| "/verif/.work/result.json".to_string());
    match cmd {
        "c01" => c01::explore(thorough, &out),
        "c08" => c08::explore(c08::Prop::C08, thorough, &out),
        "c09" => c08::explore(c08::Prop::C09, thorough, &out),
        "c10" => c10::explore(thorough, &out),
        "c17" => c17::explore(thorough, &out),
        "c18" => c18::explore(thorough, &out),
        "c19" => c19::explore(thorough, &out),
        "c20" => c20::explore(thorough, &out),
        "c20-child" => c20::child(thorough),
        "c01-child" => c01::child(args.get(2).expect("case file")),
        "replay" => {
            let engine = args.get(2).expect("engine");
            let file = args.get(3).expect("file");
            let v: Value = serde_json::from_slice(&std::fs::read(file).expect("read replay")).expect("json");
            if v["kind"] == "panic" && v["input"].is_string() {
                // a recorded panic of the stylesheet compiler: replay = transform the recorded input again
                let opts = css::Opts::from_json(&v["options"]);
                let run = || css::transform("n.wxss", v["input"].as_str().unwrap(), &opts, 0, false).err().map(|(s, m)| format!("{}: {}", s, m));
                let (a, b) = (run(), run());
                println!("{}", serde_json::json!({"deterministic": a == b, "failure": a}));
                return;
            }
            let r = match engine.as_str() {
                "c01" => c01::replay(&v),
                "c08" => c08::replay(c08::Prop::C08, &v),
                "c09" => c08::replay(c08::Prop::C09, &v),
                "c10" => c10::replay(&v),
                "c17" => c17::replay(&v),
                "c18" => c18::replay(&v),
                "c19" => c19::replay(&v),
                "c20" => c20::replay(&v),
                _ => panic!("unknown engine"),
            };
            println!("{}", r);
        }
        "batch" => batch::run(args.get(2).expect("in"), args.get(3).expect("out")),
        _ => {
            eprintln!("usage: gev <engine> [--tier quick|thorough] [--out file] | replay <engine> <file> | batch <in> <out>");
            std::process::exit(2);
        }
    }
}
