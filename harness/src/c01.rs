//! C01 — totality of both compilers: bounded-exhaustive exploration of input strings.
//!
//! state = (context, string over the alphabet); transition = append one symbol / apply one
//! deviation to a seed; every state is executed on the real compilers.

use crate::common::*;
use crate::corpus::SEEDS;
use crate::css::{self, Opts};
use crate::tmpl::{self, Want};
use serde_json::{json, Map, Value};

pub const SIGMA_W: &[&str] = &[
    "<", ">", "/", "!", "-", "=", "\"", "'", "{", "}", "&", "#", ";", ":", ".", ",", "(", ")", "[", "]", "?",
    "+", "*", "|", "~", "%", "^", "\\", "$", "_", "@", " ", "\n", "\t", "a", "e", "x", "w", "i", "A", "0",
    "1", "8", "\u{a0}", "\u{3000}", "é", "\u{2028}", "😀", "\0", "`",
];

/// contexts: (prefix, suffix); the string is placed between them
pub const CONTEXTS: &[(&str, &str)] = &[
    ("", ""),
    ("<a ", ""),
    ("<a ", ">"),
    ("<a b=\"", "\">"),
    ("<a b='", "'/>"),
    ("<a b=", ">"),
    ("{{", "}}"),
    ("<a b=\"{{", "}}\"/>"),
    ("{{'", "'}}"),
    ("{{\"", "\"}}"),
    ("{{0", "}}"),
    ("{{0x", "}}"),
    ("{{1e", "}}"),
    ("{{a.", "}}"),
    ("{{a[", "]}}"),
    ("{{f(", ")}}"),
    ("{{[", "]}}"),
    ("{{ {", "} }}"),
    ("{{a?", ":b}}"),
    ("&", ";"),
    ("&#", ";"),
    ("&#x", ";"),
    ("<!", ""),
    ("<!--", ""),
    ("</", ""),
    ("<a></", ""),
    ("<wxs module=\"m\">", "</wxs>"),
    ("<wxs ", ""),
    ("<template ", ""),
    ("<template is=\"a\" data=\"", "\"/>"),
    ("<block wx:", ""),
    ("<a wx:for=\"", "\" wx:for-item=\"x\">"),
    ("<a wx:for-item=\"", "\" wx:for=\"{{a}}\"/>"),
    ("<slot ", ""),
    ("<include src=\"", "\"/>"),
    ("<a>", "</a>"),
    ("<a b=\"x\"", ""),
    ("<a wx:if=\"{{a}}\"/><a wx:", "/>"),
    ("<a slot:", "/>"),
    ("<a bind:", "=\"f\"/>"),
];

/// contexts that get the deeper length bound
pub const MAIN_CONTEXTS: &[usize] = &[0, 1, 3, 6, 7, 35];

pub const TOKENS_W: &[&str] = &[
    "<a", "<b>", "</a>", "</b>", "/>", ">", " ", "<block", "<template", "<slot", "<include", "<import", "<wxs",
    "</wxs>", "</template>", "</block>", " wx:if=", " wx:elif=", " wx:else", " wx:for=", " wx:for-item=",
    " wx:for-index=", " wx:key=", " name=", " is=", " data=", " src=", " module=", " slot=", " slot:v", " class=",
    " bind:tap=", " model:v=", " data-a=", " mark:m=", " generic:g=", "\"x\"", "\"{{a}}\"", "'{{item}}'", "\"", "{{",
    "}}", "a", "item", " typeof ", " instanceof ", " ? ", " : ", " ... ", "&#x41;", "&amp;", "&", "<!--", "-->",
    "(", ")", "[", "]", "{", "}", ",", ".", "0x", "1e", "'", "=", "\u{a0}",
];

pub const TOKEN_CONTEXTS: &[(&str, &str)] = &[("", ""), ("<a", ""), ("{{", "}}"), ("<a wx:for=\"{{a}}\">", "</a>")];

pub const PATHS: &[&str] = &["", "p", "a/b", "é'\\"];

pub const SIGMA_C: &[&str] = &[
    "a", ".", "#", ":", "@", "{", "}", "(", ")", "[", "]", ";", ",", " ", "\n", "/", "*", "\"", "'", "\\", "-", "+",
    "0", "1", "e", "%", "!", "<", ">", "=", "~", "|", "^", "$", "u", "é", "😀", "\0", "\u{a0}", "&",
];

pub const TOKENS_C: &[&str] = &[
    ".a", "#a", "a", ":host", ":not(", ":is(", "::b", "@media", "@import", "@supports", "@layer", "@font-face",
    "@keyframes", "{", "}", "(", ")", "[", "]", ";", ":", ",", " ", "1rpx", "-1.5rpx", "1px", "50%", "calc(", "url(",
    "url(\"", "\"x\"", "'", "/*", "*/", "<!--", "-->", "!important", "+", "-", "U+0-7F", "2n+1", "\\", "layer(", "supports(", "screen",
    // (upper-case spellings: names of at-rules and functions are ASCII case-insensitive, the code paths that compare them are not all)
    "LAYER(", "Supports(", "@IMPORT", "@MEDIA", "CALC(", "layer",
];

pub const CSS_CONTEXTS: &[(&str, &str)] = &[
    ("", ""),
    ("@media ", "{}"),
    ("@import ", ";"),
    (":host ", "{}"),
    (".a{", "}"),
    (".a{b:", "}"),
    (":not(", "){}"),
    (".a{b:calc(", ")}"),
    ("url(", ""),
    ("\"", ""),
    ("@", ""),
    (".a{b:f(", ""),
];

pub fn css_option_sets(all: bool) -> Vec<Opts> {
    let prefixes: &[Option<&str>] = &[None, Some("p"), Some("é")];
    let signs: &[Option<&str>] = &[None, Some("S")];
    let isigns: &[Option<&str>] = &[None, Some("I")];
    let hosts: &[bool] = &[false, true];
    let his: &[Option<&str>] = &[None, Some("h")];
    let ratios: &[f32] = &[750., 1., 0.5, 0., -1., f32::NAN, f32::INFINITY];
    let mut out = vec![];
    if all {
        for p in prefixes {
            for s in signs {
                for i in isigns {
                    for h in hosts {
                        for hi in his {
                            for r in ratios {
                                out.push(Opts {
                                    class_prefix: p.map(|x| x.to_string()),
                                    class_prefix_sign: s.map(|x| x.to_string()),
                                    import_sign: i.map(|x| x.to_string()),
                                    convert_host: *h,
                                    host_is: hi.map(|x| x.to_string()),
                                    rpx_ratio: *r,
                                });
                            }
                        }
                    }
                }
            }
        }
    } else {
        // 8 sets: every option value occurs, and the all-on / all-off corners
        let mk = |p: Option<&str>, s: Option<&str>, i: Option<&str>, h: bool, hi: Option<&str>, r: f32| Opts {
            class_prefix: p.map(|x| x.to_string()),
            class_prefix_sign: s.map(|x| x.to_string()),
            import_sign: i.map(|x| x.to_string()),
            convert_host: h,
            host_is: hi.map(|x| x.to_string()),
            rpx_ratio: r,
        };
        out.push(mk(None, None, None, false, None, 750.));
        out.push(mk(Some("p"), Some("S"), Some("I"), true, Some("h"), 750.));
        out.push(mk(Some("é"), None, Some("I"), true, None, 1.));
        out.push(mk(Some("p"), None, None, true, Some("h"), 0.));
        out.push(mk(None, Some("S"), Some("I"), false, None, -1.));
        out.push(mk(Some("p"), Some("S"), None, false, Some("h"), f32::NAN));
        out.push(mk(None, None, Some("I"), true, Some("h"), f32::INFINITY));
        out.push(mk(Some("é"), Some("S"), Some("I"), true, None, 0.5));
    }
    out
}

#[derive(Clone, Debug)]
pub enum Case {
    Tmpl { path: String, src: String },
    Css { src: String, opts: Opts },
}

impl Case {
    pub fn to_json(&self) -> Value {
        match self {
            Case::Tmpl { path, src } => json!({"kind": "tmpl", "path": path, "src": src}),
            Case::Css { src, opts } => json!({"kind": "css", "src": src, "opts": opts.to_json()}),
        }
    }
    pub fn from_json(v: &Value) -> Option<Case> {
        match v.get("kind")?.as_str()? {
            "tmpl" => Some(Case::Tmpl { path: v.get("path")?.as_str()?.to_string(), src: v.get("src")?.as_str()?.to_string() }),
            "css" => Some(Case::Css { src: v.get("src")?.as_str()?.to_string(), opts: Opts::from_json(v.get("opts")?) }),
            _ => None,
        }
    }
    pub fn len(&self) -> usize {
        match self {
            Case::Tmpl { src, .. } => src.len(),
            Case::Css { src, .. } => src.len(),
        }
    }
}

pub fn fuel_budget(n: usize) -> u64 {
    let n = n as u64;
    4000 + 400 * n + 8 * n * n
}
pub fn css_fuel_budget(n: usize) -> u64 {
    let n = n as u64;
    2000 + 200 * n + 4 * n * n
}
pub fn output_budget(n: usize) -> usize {
    (1 << 16) + 512 * n + 64 * n * n
}

#[derive(Debug, Clone)]
pub struct Outcome {
    /// None = fine; Some((class, detail))
    pub failure: Option<(String, String)>,
    pub fuel: u64,
    pub out_len: usize,
    pub diag_count: usize,
    pub max_level: u8,
}

fn norm_digits(s: &str) -> String {
    let mut out = String::new();
    let mut prev_digit = false;
    for c in s.chars() {
        if c.is_ascii_digit() {
            if !prev_digit {
                out.push('N');
            }
            prev_digit = true;
        } else {
            prev_digit = false;
            out.push(c);
        }
    }
    out.chars().take(160).collect()
}

pub fn run_case(case: &Case) -> Outcome {
    match case {
        Case::Tmpl { path, src } => {
            let run = tmpl::compile(&[(path.clone(), src.clone())], &[], Want::ALL, fuel_budget(src.len()));
            let out_len: usize = run.outputs.iter().map(|(_, r)| r.as_ref().map(|s| s.len()).unwrap_or(0)).sum();
            let diag_count: usize = run.diags.iter().map(|(_, d)| d.len()).sum();
            let max_level = run.diags.iter().map(|(_, d)| tmpl::max_level(d)).max().unwrap_or(0);
            let mut failure = None;
            if let Some((stage, msg)) = &run.panic {
                let stage = stage.split(':').next().unwrap_or("").to_string();
                let class = if msg.contains("VERIF-FUEL") { "fuel".to_string() } else { format!("panic:{}", norm_digits(msg)) };
                failure = Some((format!("{}|{}", stage, class), msg.clone()));
            } else if out_len > output_budget(src.len()) {
                failure = Some(("output-size".to_string(), format!("{} bytes of output for {} bytes of input", out_len, src.len())));
            }
            Outcome { failure, fuel: run.parse_fuel, out_len, diag_count, max_level }
        }
        Case::Css { src, opts } => match css::transform("p.wxss", src, opts, css_fuel_budget(src.len()), false) {
            Ok(run) => {
                let out_len = run.normal.len() + run.low.len();
                let mut failure = None;
                if out_len > output_budget(src.len()) {
                    failure = Some(("css-output-size".to_string(), format!("{} bytes of output for {} bytes of input", out_len, src.len())));
                }
                Outcome { failure, fuel: run.fuel, out_len, diag_count: run.warnings.len(), max_level: run.warnings.iter().map(|w| w.level).max().unwrap_or(0) }
            }
            Err((stage, msg)) => {
                let class = if msg.contains("VERIF-FUEL") { "fuel".to_string() } else { format!("panic:{}", norm_digits(&msg)) };
                Outcome { failure: Some((format!("css-{}|{}", stage, class), msg)), fuel: 0, out_len: 0, diag_count: 0, max_level: 0 }
            }
        },
    }
}

/// Greedy shrink: delete one char at a time while the same failure class persists.
pub fn shrink(case: &Case, class: &str) -> Case {
    let (mut cur, rebuild): (String, Box<dyn Fn(String) -> Case>) = match case {
        Case::Tmpl { path, src } => {
            let p = path.clone();
            (src.clone(), Box::new(move |s| Case::Tmpl { path: p.clone(), src: s }))
        }
        Case::Css { src, opts } => {
            let o = opts.clone();
            (src.clone(), Box::new(move |s| Case::Css { src: s, opts: o.clone() }))
        }
    };
    if cur.len() > 400 {
        // scaling-family inputs: shrink by halving first
        loop {
            let chars: Vec<char> = cur.chars().collect();
            if chars.len() < 8 {
                break;
            }
            let mut found = false;
            for (a, b) in [(0, chars.len() / 2), (chars.len() / 2, chars.len()), (chars.len() / 4, 3 * chars.len() / 4)] {
                let cand: String = chars[a..b].iter().collect();
                let o = run_case(&rebuild(cand.clone()));
                if o.failure.as_ref().map(|f| f.0 == class).unwrap_or(false) {
                    cur = cand;
                    found = true;
                    break;
                }
            }
            if !found {
                break;
            }
        }
    }
    if cur.chars().count() > 300 {
        return rebuild(cur);
    }
    loop {
        let chars: Vec<char> = cur.chars().collect();
        let mut improved = false;
        for i in 0..chars.len() {
            let cand: String = chars.iter().enumerate().filter(|(k, _)| *k != i).map(|(_, c)| *c).collect();
            let o = run_case(&rebuild(cand.clone()));
            if o.failure.as_ref().map(|f| f.0 == class).unwrap_or(false) {
                cur = cand;
                improved = true;
                break;
            }
        }
        if !improved {
            break;
        }
    }
    rebuild(cur)
}

struct Sub {
    name: String,
    size: u64,
    gen: Box<dyn Fn(u64) -> Case + Sync + Send>,
}

fn str_of(idx: &[usize], alpha: &[&str]) -> String {
    idx.iter().map(|i| alpha[*i]).collect()
}

fn mutants(seed: &str, sigma: &[&'static str]) -> Vec<String> {
    // single deviations: delete, insert σ, replace σ, duplicate, swap with next, truncate at every byte
    let chars: Vec<char> = seed.chars().collect();
    let mut out = vec![];
    for i in 0..chars.len() {
        let mut v = chars.clone();
        v.remove(i);
        out.push(v.iter().collect());
        let mut v = chars.clone();
        v.insert(i, chars[i]);
        out.push(v.iter().collect());
        if i + 1 < chars.len() {
            let mut v = chars.clone();
            v.swap(i, i + 1);
            out.push(v.iter().collect());
        }
        out.push(chars[..i].iter().collect());
        for s in sigma {
            let head: String = chars[..i].iter().collect();
            let tail: String = chars[i..].iter().collect();
            out.push(format!("{}{}{}", head, s, tail));
            let tail2: String = chars[i + 1..].iter().collect();
            out.push(format!("{}{}{}", head, s, tail2));
        }
    }
    for s in sigma {
        out.push(format!("{}{}", seed, s));
    }
    out
}

const DEV_SIGMA: &[&str] = &["<", ">", "/", "\"", "'", "{", "}", "{{", "}}", "&", "=", " ", "\n", "\u{a0}", "😀", "(", ")", "[", "]", ".", ":", "-", "0", "a", "\\", "?"];

const SCALE_NS: &[usize] = &[64, 256, 512, 1024];
const SCALE_NS_THOROUGH: &[usize] = &[64, 256, 512, 1024, 2048, 4096];

const NEST_OPENERS: &[(&str, &str, &str, &str)] = &[
    // (prefix, opener, closer, suffix) — nesting depth exactly 64
    ("{{", "(", ")", "}}"),
    ("{{", "[", "]", "}}"),
    ("{{", "{a:", "}", "}}"),
    ("", "<a>", "</a>", ""),
    ("{{", "!", "", "a}}"),
    ("{{", "a?a:", "", "a}}"),
    ("{{a", ".a", "", "}}"),
    ("{{a", "+a", "", "}}"),
    ("{{", "f(", ")", "}}"),
    ("", "<block wx:if=\"{{a}}\">", "</block>", ""),
    ("", "<a wx:for=\"{{a}}\">", "</a>", ""),
    ("{{", "-", "", "1}}"),
    ("{{a", "[a]", "", "}}"),
];

fn build_spaces(thorough: bool) -> Vec<Sub> {
    let mut subs: Vec<Sub> = vec![];
    let aw = SIGMA_W.len() as u64;
    let (l_all, l_main, l_tok) = if thorough { (4, 5, 4) } else { (3, 4, 3) };
    // (a) character strings in every context
    for (ci, (pre, suf)) in CONTEXTS.iter().enumerate() {
        let l = if MAIN_CONTEXTS.contains(&ci) && (thorough || ci == 0 || ci == 6) { l_main } else { l_all };
        let size = str_space_size(aw, l);
        let (pre, suf) = (pre.to_string(), suf.to_string());
        subs.push(Sub {
            name: format!("chars:{}…{}:len<={}", pre, suf, l),
            size,
            gen: Box::new(move |i| {
                let w = str_of(&str_unrank(i, aw, l), SIGMA_W);
                Case::Tmpl { path: PATHS[(i % 4) as usize].to_string(), src: format!("{}{}{}", pre, w, suf) }
            }),
        });
    }
    // (b) token strings, all four paths
    let at = TOKENS_W.len() as u64;
    for (pre, suf) in TOKEN_CONTEXTS.iter() {
        let size = str_space_size(at, l_tok);
        let (pre, suf) = (pre.to_string(), suf.to_string());
        subs.push(Sub {
            name: format!("tokens:{}…{}:len<={}", pre, suf, l_tok),
            size: size * 2,
            gen: Box::new(move |i| {
                let w = str_of(&str_unrank(i / 2, at, l_tok), TOKENS_W);
                let path = if i % 2 == 0 { PATHS[2] } else { PATHS[3] };
                Case::Tmpl { path: path.to_string(), src: format!("{}{}{}", pre, w, suf) }
            }),
        });
    }
    // (b2) value pieces: every sequence of <= 4 (thorough: 5) pieces - static text, blanks, bindings whose expression is a name, a
    // concatenation with a string literal on either side, a literal alone, an empty literal, a lone brace - as element text, as a plain
    // attribute, as class and as a template data attribute (the parser folds the pieces of a value into one concatenation tree and
    // the printer takes it apart again: the two must agree on every shape of the first, middle and last piece)
    const VALUE_PIECES: &[&str] = &["x", " ", "{{a}}", "{{a+'s'}}", "{{'s'+a}}", "{{'s'}}", "{{a+'s'+b}}", "{{''}}", "{", "{{a?'s':b}}", "{{(a+'s')}}"];
    const VALUE_CONTEXTS: &[(&str, &str)] = &[("<a>", "</a>"), ("<a b=\"", "\"/>"), ("<a class=\"", "\"/>"), ("<a c=\"{{d}}\" b=\"", "\">t</a>"), ("", "")];
    let avp = VALUE_PIECES.len() as u64;
    let l_vp = if thorough { 5 } else { 4 };
    for (pre, suf) in VALUE_CONTEXTS.iter() {
        let size = str_space_size(avp, l_vp);
        let (pre, suf) = (pre.to_string(), suf.to_string());
        subs.push(Sub {
            name: format!("value-pieces:{}…{}:len<={}", pre, suf, l_vp),
            size,
            gen: Box::new(move |i| {
                let w = str_of(&str_unrank(i, avp, l_vp), VALUE_PIECES);
                Case::Tmpl { path: "p".to_string(), src: format!("{}{}{}", pre, w, suf) }
            }),
        });
    }
    // (b3) control attributes x sibling sequences: every sequence of <= 3 siblings, each one an element (`<a …/>` or `<block …>t</block>`)
    // with every ordered selection of <= 2 of the control attributes wx:if / wx:elif / wx:else / wx:for / wx:key / slot, or a comment;
    // at the top level, inside an element and inside a loop (the parser joins condition branches to the sibling in front of them and
    // wraps loops around the result: every combination of the two on neighbouring siblings, well-formed or not)
    {
        const CTRL: &[&str] = &[" wx:if=\"{{x}}\"", " wx:elif=\"{{y}}\"", " wx:else", " wx:for=\"{{l}}\"", " wx:key=\"k\"", " slot=\"s\""];
        let mut sels: Vec<String> = vec![String::new()];
        for a in CTRL {
            sels.push(a.to_string());
            for b in CTRL {
                if a != b {
                    sels.push(format!("{}{}", a, b));
                }
            }
        }
        let mut sibs: Vec<String> = vec!["<!-- c -->".to_string()];
        for sel in sels.iter() {
            sibs.push(format!("<a{}/>", sel));
            sibs.push(format!("<block{}>t</block>", sel));
        }
        let sibs = std::sync::Arc::new(sibs);
        let asib = sibs.len() as u64;
        const SIB_CONTEXTS: &[(&str, &str)] = &[("", ""), ("<v>", "</v>"), ("<e wx:for=\"{{m}}\">", "</e>")];
        for (pre, suf) in SIB_CONTEXTS.iter() {
            let size = str_space_size(asib, 3);
            let (pre, suf) = (pre.to_string(), suf.to_string());
            let sibs = sibs.clone();
            subs.push(Sub {
                name: format!("control-attribute-siblings:{}…{}:len<=3", pre, suf),
                size,
                gen: Box::new(move |i| {
                    let w: String = str_unrank(i, asib, 3).iter().map(|k| sibs[*k].as_str()).collect();
                    Case::Tmpl { path: "p".to_string(), src: format!("{}{}{}", pre, w, suf) }
                }),
            });
        }
    }
    // (c) deviation-bounded mutants of the well-formed corpus (k = 1; k = 2 for short seeds when thorough)
    let mut devs: Vec<String> = vec![];
    for seed in SEEDS {
        let m1 = mutants(seed, DEV_SIGMA);
        if thorough && seed.len() < 40 {
            for m in m1.iter() {
                devs.extend(mutants(m, &DEV_SIGMA[..12]));
            }
        }
        devs.extend(m1);
        devs.push(seed.to_string());
    }
    devs.sort();
    devs.dedup();
    let devs = std::sync::Arc::new(devs);
    {
        let d = devs.clone();
        subs.push(Sub {
            name: format!("deviations:k<={}", if thorough { 2 } else { 1 }),
            size: devs.len() as u64 * 4,
            gen: Box::new(move |i| Case::Tmpl { path: PATHS[(i % 4) as usize].to_string(), src: d[(i / 4) as usize].clone() }),
        });
    }
    // (d) scaling families p^n in every context
    let lp = if thorough { 3 } else { 2 };
    let np = str_space_size(aw, lp) - 1; // without the empty pattern
    let ns: &'static [usize] = if thorough { SCALE_NS_THOROUGH } else { SCALE_NS };
    for (pre, suf) in CONTEXTS.iter() {
        let (pre, suf) = (pre.to_string(), suf.to_string());
        subs.push(Sub {
            name: format!("scaling:{}…{}", pre, suf),
            size: np * ns.len() as u64,
            gen: Box::new(move |i| {
                let p = str_of(&str_unrank(i / ns.len() as u64 + 1, aw, lp), SIGMA_W);
                let n = ns[(i % ns.len() as u64) as usize];
                let reps = (n / p.len().max(1)).max(1);
                Case::Tmpl { path: "p".to_string(), src: format!("{}{}{}", pre, p.repeat(reps), suf) }
            }),
        });
    }
    // nesting depth exactly 64 for each opener family
    subs.push(Sub {
        name: "nesting:depth=64".to_string(),
        size: NEST_OPENERS.len() as u64,
        gen: Box::new(move |i| {
            let (pre, o, c, suf) = NEST_OPENERS[i as usize];
            Case::Tmpl { path: "p".to_string(), src: format!("{}{}{}{}", pre, o.repeat(64), c.repeat(64), suf) }
        }),
    });
    // large templates: every declaration-site kind repeated until the counters of generated identifiers have passed their
    // first reserved words (if / in / do after about 2200 declarations; var near 179 000 in the thorough tier); the parser
    // fuel does not tick in the code generator, the 30 s CPU-time watchdog does
    const LARGE_KINDS: &[&str] = &[
        "<a>x</a>",
        "<a wx:if=\"{{x}}\"/>",
        "<a wx:for=\"{{l}}\">{{item}}</a>",
        "<a b=\"{{c?d[e]:f}}\"/>",
        "<c><b slot:v>{{v}}</b></c>",
        "<template is=\"{{x}}\" data=\"{{y}}\"/>",
        "{{x}}<a/>",
        "<slot name=\"{{x}}\" v=\"{{y}}\"/>",
    ];
    let large_sizes: &'static [usize] = if thorough { &[2300, 2800, 10000, 200000] } else { &[2300, 2800] };
    subs.push(Sub {
        name: "large:declarations".to_string(),
        size: (LARGE_KINDS.len() * large_sizes.len()) as u64,
        gen: Box::new(move |i| {
            let kind = LARGE_KINDS[(i as usize) % LARGE_KINDS.len()];
            let n = large_sizes[(i as usize) / LARGE_KINDS.len()];
            Case::Tmpl { path: "p".to_string(), src: kind.repeat(n) }
        }),
    });
    // (e) stylesheets
    let ac = SIGMA_C.len() as u64;
    let atc = TOKENS_C.len() as u64;
    let optsets = std::sync::Arc::new(css_option_sets(thorough));
    let lc = if thorough { 4 } else { 3 };
    let nopt = optsets.len() as u64;
    for (pre, suf) in CSS_CONTEXTS.iter() {
        let (pre, suf) = (pre.to_string(), suf.to_string());
        let o = optsets.clone();
        // character strings: all option sets for len<=2, the 8 covering sets beyond
        let size = str_space_size(ac, lc);
        let quick_opts = std::sync::Arc::new(css_option_sets(false));
        let q = quick_opts.clone();
        subs.push(Sub {
            name: format!("css-chars:{}…{}:len<={}", pre, suf, lc),
            size: size * 8,
            gen: {
                let (pre, suf) = (pre.clone(), suf.clone());
                Box::new(move |i| {
                    let w = str_of(&str_unrank(i / 8, ac, lc), SIGMA_C);
                    Case::Css { src: format!("{}{}{}", pre, w, suf), opts: q[(i % 8) as usize].clone() }
                })
            },
        });
        if thorough {
            let size2 = str_space_size(ac, 2);
            subs.push(Sub {
                name: format!("css-chars-allopts:{}…{}:len<=2", pre, suf),
                size: size2 * nopt,
                gen: {
                    let (pre, suf) = (pre.clone(), suf.clone());
                    let o = o.clone();
                    Box::new(move |i| {
                        let w = str_of(&str_unrank(i / nopt, ac, 2), SIGMA_C);
                        Case::Css { src: format!("{}{}{}", pre, w, suf), opts: o[(i % nopt) as usize].clone() }
                    })
                },
            });
        }
        let ltc = if thorough { 3 } else { 2 };
        let size = str_space_size(atc, ltc);
        let q = quick_opts.clone();
        subs.push(Sub {
            name: format!("css-tokens:{}…{}:len<={}", pre, suf, ltc),
            size: size * 8,
            gen: Box::new(move |i| {
                let w = str_of(&str_unrank(i / 8, atc, ltc), TOKENS_C);
                Case::Css { src: format!("{}{}{}", pre, w, suf), opts: q[(i % 8) as usize].clone() }
            }),
        });
    }
    // css scaling
    let npc = str_space_size(ac, 2) - 1;
    for (pre, suf) in CSS_CONTEXTS.iter() {
        let (pre, suf) = (pre.to_string(), suf.to_string());
        let q = std::sync::Arc::new(css_option_sets(false));
        subs.push(Sub {
            name: format!("css-scaling:{}…{}", pre, suf),
            size: npc * ns.len() as u64,
            gen: Box::new(move |i| {
                let p = str_of(&str_unrank(i / ns.len() as u64 + 1, ac, 2), SIGMA_C);
                let n = ns[(i % ns.len() as u64) as usize];
                let reps = (n / p.len().max(1)).max(1);
                Case::Css { src: format!("{}{}{}", pre, p.repeat(reps), suf), opts: q[1].clone() }
            }),
        });
    }
    subs
}

fn failure_violation(case: &Case, class: &str, detail: &str) -> Violation {
    let small = shrink(case, class);
    let txt = match &small {
        Case::Tmpl { src, .. } => format!("tmpl {:?}", src),
        Case::Css { src, opts } => format!("css {:?} opts={}", src, opts.to_json()),
    };
    Violation {
        fingerprint: format!("{}|{}", class, txt),
        what: format!("{} on {} ({})", class, txt, detail.chars().take(200).collect::<String>()),
        replay: json!({"engine": "c01", "case": small.to_json(), "class": class, "original": case.to_json()}),
    }
}

pub fn explore(thorough: bool, result_path: &str) {
    silence_panics();
    let subs = build_spaces(thorough);
    let total: u64 = subs.iter().map(|s| s.size).sum();
    let mut starts = vec![];
    let mut acc = 0u64;
    for s in &subs {
        starts.push(acc);
        acc += s.size;
    }
    let locate = |i: u64| -> (usize, u64) {
        let k = match starts.binary_search(&i) {
            Ok(k) => k,
            Err(k) => k - 1,
        };
        (k, i - starts[k])
    };
    let t0 = std::time::Instant::now();
    let result_path_s = result_path.to_string();
    let subs_ref = &subs;
    let on_hang = |i: u64| {
        let (k, j) = locate(i);
        let case = (subs_ref[k].gen)(j);
        let mut rep = Report::new();
        rep.states = i;
        rep.evaluations = i;
        rep.violation(Violation {
            fingerprint: format!("hang|{}", case.to_json()),
            what: format!("no answer within 30 s of CPU time (parser fuel was not exhausted: the loop is outside the parser cursor) on {}", case.to_json()),
            replay: json!({"engine": "c01", "case": case.to_json(), "class": "hang"}),
        });
        let res = rep.to_result("C01", "aborted by the watchdog", json!({}), false, &[], Map::new());
        write_result(&result_path_s, &res);
        std::process::exit(0);
    };
    let children = std::thread::spawn(move || run_children(thorough));
    let rep = par_run_watched(total, threads(), 30, &on_hang, |i, rep| {
        let (k, j) = locate(i);
        let case = (subs[k].gen)(j);
        let o = run_case(&case);
        rep.states += 1;
        rep.transitions += 1;
        rep.evaluations += 1;
        rep.outcome(&(o.failure.as_ref().map(|f| f.0.clone()), o.diag_count.min(6), o.max_level, o.out_len / 64));
        if o.diag_count > 0 || o.out_len > 3000 {
            rep.nontrivial_case(&i);
        }
        rep.count(&format!("space:{}", subs[k].name.split(':').next().unwrap()), 1);
        if i % 1_000_003 == 0 {
            rep.sample(json!({"space": subs[k].name, "case": case.to_json(), "fuel": o.fuel, "diagnostics": o.diag_count, "output_bytes": o.out_len}));
        }
        if let Some((class, detail)) = &o.failure {
            // shrink only the first few cases of a class per worker (shrinking a hang costs its whole fuel budget per step)
            let key = format!("failures:{}", class);
            let seen = rep.counters.get(&key).copied().unwrap_or(0);
            rep.count(&key, 1);
            if seen < 6 {
                rep.violation(failure_violation(&case, class, detail));
            }
        }
        // scaling law on the families: steps(2n) / steps(n) <= 5 for n >= 256
        if subs[k].name.starts_with("scaling:") || subs[k].name.starts_with("css-scaling:") {
            let ns = if thorough { SCALE_NS_THOROUGH } else { SCALE_NS };
            let pos = (j % ns.len() as u64) as usize;
            if pos > 0 && ns[pos - 1] >= 256 && o.failure.is_none() {
                // the reference is the LARGEST step count at any smaller size of the same family (not only the next smaller one):
                // a family may alternate between two linear regimes (e.g. a comment that is closed for an even and open for an
                // odd number of repetitions), which is not growth
                let mut prev = run_case(&(subs[k].gen)(j - 1));
                for back in 2..=pos as u64 {
                    let q = run_case(&(subs[k].gen)(j - back));
                    if q.failure.is_none() && q.fuel > prev.fuel {
                        prev = q;
                    }
                }
                rep.count("scaling_pairs", 1);
                if prev.failure.is_none() && prev.fuel >= 200 && o.fuel > prev.fuel * 5 {
                    let v = Violation {
                        fingerprint: format!("superquadratic|{}", (subs[k].gen)(j - 1).to_json()),
                        what: format!("parser steps grow from at most {} (any smaller size of the family) to {} when the input doubles", prev.fuel, o.fuel),
                        replay: json!({"engine": "c01", "case": case.to_json(), "class": "superquadratic", "half": (subs[k].gen)(j - 1).to_json()}),
                    };
                    rep.violation(v);
                }
            }
        }
    });
    let mut rep = rep;
    let (flat_results, nest_results) = children.join().expect("the thread that runs the child processes panicked");
    merge_children(&mut rep, flat_results, nest_results);
    let spaces: Vec<Value> = subs.iter().map(|s| json!({"name": s.name, "size": s.size})).collect();
    let mut extra = Map::new();
    extra.insert("spaces".into(), json!(spaces.len()));
    extra.insert("space_list_head".into(), json!(spaces.iter().take(8).collect::<Vec<_>>()));
    extra.insert("engine_wall_s".into(), json!(t0.elapsed().as_secs_f64()));
    let bound = json!({
        "template_alphabet": SIGMA_W.len(), "template_contexts": CONTEXTS.len(),
        "char_len_all_contexts": if thorough {4} else {3}, "char_len_main_contexts": if thorough { json!("5 in 6 contexts") } else { json!("4 in 2 contexts (top level, inside {{ }})") },
        "token_alphabet": TOKENS_W.len(), "token_len": if thorough {4} else {3},
        "deviations": if thorough {2} else {1}, "seeds": SEEDS.len(),
        "scaling_sizes": if thorough { json!(SCALE_NS_THOROUGH) } else { json!(SCALE_NS) }, "nesting_depth": 64,
        "css_alphabet": SIGMA_C.len(), "css_contexts": CSS_CONTEXTS.len(), "css_char_len": if thorough {4} else {3},
        "css_option_sets": if thorough {1008} else {8},
        "fuel_budget": "4000+400n+8n^2 parser steps (template), 2000+200n+4n^2 token steps (stylesheet)",
        "output_budget": "65536+512n+64n^2 bytes",
    });
    let res = rep.to_result(
        "C01",
        "every string of the stated alphabets up to the stated length in every listed parser context, every single deviation of every corpus seed, every p^n scaling family, and 17 flat families (one unit repeated 3*10^4 .. 3*10^5 times at nesting depth 1) and 17 valid nestings (object / array spreads, fields, calls, indices, conditionals, elements, blocks at depth 20 and 64) each in a child process of its own, where an abort of the process is observed as such; non-trivial = the run produced at least one diagnostic or more than 3000 bytes of output; distinct = distinct index in the enumeration",
        bound,
        true,
        &["rustc catch_unwind observes every panic; aborts are observed by ./check as a dead engine and re-run singly",
          "fuel hook counts every parser cursor primitive (hooks H1/H2); loops outside the cursor are caught by the 30 s CPU-time watchdog"],
        extra,
    );
    write_result(result_path, &res);
}

// --- flat families run in child processes ---------------------------------------------------------------------------
//
// A process abort (stack overflow in a recursive pass over a chain the parser builds from a FLAT input) cannot be caught
// in-process: it would take the whole engine down. Each case of this sub-space runs in a child process of its own.

/// (name, prefix, repeated unit, suffix, is stylesheet)
pub const FLAT_KINDS: &[(&str, &str, &str, &str, bool)] = &[
    ("text:binding-run", "", "{{a}}", "", false),
    ("text:static+binding-run", "", "x{{a}}", "", false),
    ("attr:binding-run", "<a b=\"", "{{a}}", "\"/>", false),
    ("attr:static+binding-run", "<a class=\"", "c {{a}} ", "\"/>", false),
    ("text:entity-run", "", "&amp;x", "", false),
    ("text:two-nodes-run", "", "{{a}}<!--c-->", "", false),
    ("elements:sibling-run", "", "<a/>", "", false),
    ("elements:if-elif-run", "<a wx:if=\"{{x}}\"/>", "<a wx:elif=\"{{x}}\"/>", "", false),
    ("attributes:run", "<a ", "b=\"1\" ", "/>", false),
    ("expr:array-items-run", "{{ [", "a,", "] }}", false),
    ("expr:object-fields-run", "{{ {", "a:1,", "} }}", false),
    ("expr:call-arguments-run", "{{ f(", "a,", "a) }}", false),
    ("css:declaration-run", ".a{", "k:v;", "}", true),
    ("css:selector-list-run", "", ".a,", ".b{}", true),
    ("css:rule-run", "", ".a{}", "", true),
    ("css:import-run", "", "@import \"a\";", "", true),
    ("css:value-token-run", ".a{k:", "1px ", "}", true),
];

/// nestings whose innermost operand is valid, so that the code generator runs on them: (name, prefix, opener, innermost, closer, suffix)
pub const NEST_VALID: &[(&str, &str, &str, &str, &str, &str)] = &[
    ("nest:object-spread", "<a b=\"{{ ", "{...", "a", "}", " }}\"/>"),
    ("nest:object-field+spread", "<a b=\"{{ ", "{b:1,...", "a", "}", " }}\"/>"),
    ("nest:array-spread-of-object-spread", "<a b=\"{{ ", "[...[{...", "x", "}]]", " }}\"/>"),
    ("nest:array-spread", "<a b=\"{{ ", "[1,...", "x", ",2]", " }}\"/>"),
    ("nest:object-field", "<a b=\"{{ ", "{a:", "x", "}", " }}\"/>"),
    ("nest:parentheses", "<a b=\"{{ ", "(", "a", ")", " }}\"/>"),
    ("nest:call-argument", "<a b=\"{{ ", "f(", "a", ")", " }}\"/>"),
    ("nest:dynamic-index", "<a b=\"{{ ", "a[", "b", "]", " }}\"/>"),
    ("nest:conditional-in-true-branch", "<a b=\"{{ ", "c?", "a", ":b", " }}\"/>"),
    ("nest:conditional-in-condition", "<a b=\"{{ ", "(", "c", "?a:b)", " }}\"/>"),
    ("nest:nullish-left", "<a b=\"{{ ", "(", "a", "??b)", " }}\"/>"),
    ("nest:template-data-spread", "<template is=\"t\" data=\"{{ ...", "{...", "a", "}", " }}\"/>"),
    ("nest:model-object-spread", "<a model:b=\"{{ ", "{...", "a", "}", ".x }}\"/>"),
    ("nest:for-list-spread", "<a wx:for=\"{{ ", "[...", "l", "]", " }}\">{{item}}</a>"),
    ("nest:element+binding", "", "<a b=\"{{x}}\">", "{{y}}", "</a>", ""),
    ("nest:if-blocks+binding", "", "<block wx:if=\"{{x}}\">", "{{y}}", "</block>", ""),
    ("nest:for-blocks+binding", "", "<block wx:for=\"{{x}}\">", "{{item}}", "</block>", ""),
];

pub fn nest_case(kind: usize, depth: usize) -> Case {
    let (_, pre, o, inner, c, suf) = NEST_VALID[kind];
    Case::Tmpl { path: "p".to_string(), src: format!("{}{}{}{}{}", pre, o.repeat(depth), inner, c.repeat(depth), suf) }
}

pub fn flat_case(kind: usize, n: usize) -> Case {
    let (_, pre, unit, suf, css) = FLAT_KINDS[kind];
    let src = format!("{}{}{}", pre, unit.repeat(n), suf);
    if css {
        Case::Css { src, opts: css_option_sets(false)[1].clone() }
    } else {
        Case::Tmpl { path: "p".to_string(), src }
    }
}

/// child process: run one case, print its outcome
pub fn child(file: &str) {
    silence_panics();
    let v: Value = serde_json::from_slice(&std::fs::read(file).expect("read case")).expect("json");
    let case = if v["flat_kind"].is_u64() {
        flat_case(v["flat_kind"].as_u64().unwrap() as usize, v["n"].as_u64().unwrap() as usize)
    } else if v["nest_kind"].is_u64() {
        nest_case(v["nest_kind"].as_u64().unwrap() as usize, v["n"].as_u64().unwrap() as usize)
    } else {
        Case::from_json(&v["case"]).expect("case")
    };
    let o = run_case(&case);
    println!("{}", json!({"failure": o.failure.map(|f| json!([f.0, f.1.chars().take(300).collect::<String>()])), "fuel": o.fuel, "output_bytes": o.out_len, "diagnostics": o.diag_count}));
}

/// parent side: (class, detail) of a failure, or None; `Err` = machinery problem
pub fn run_in_child(spec: &Value, tag: &str) -> Result<(Option<(String, String)>, Value), String> {
    use std::io::Read;
    let file = format!("/verif/.work/c01-child-{}-{}.json", std::process::id(), tag);
    std::fs::write(&file, serde_json::to_vec(spec).unwrap()).map_err(|e| e.to_string())?;
    let exe = std::env::current_exe().map_err(|e| e.to_string())?;
    let mut ch = std::process::Command::new(exe).arg("c01-child").arg(&file).stdout(std::process::Stdio::piped()).stderr(std::process::Stdio::null()).spawn().map_err(|e| e.to_string())?;
    // The watchdog reads the CPU time the child has consumed (utime + stime of /proc/<pid>/stat), not the wall clock: the verdict
    // "hang" must not depend on how busy the machine is. A child that stays below the CPU limit but does not answer within the
    // (much larger) wall limit is a machinery problem, not a verdict.
    let cpu_limit = child_cpu_limit_secs();
    let t0 = std::time::Instant::now();
    let pid = ch.id();
    let cpu_secs = || -> Option<f64> {
        let st = std::fs::read_to_string(format!("/proc/{}/stat", pid)).ok()?;
        let rest = &st[st.rfind(')')? + 2..];
        let f: Vec<&str> = rest.split(' ').collect();
        let ut: f64 = f.get(11)?.parse().ok()?;
        let stt: f64 = f.get(12)?.parse().ok()?;
        Some((ut + stt) / 100.0)
    };
    let status = loop {
        match ch.try_wait().map_err(|e| e.to_string())? {
            Some(st) => break Some(st),
            None => {
                if cpu_secs().map_or(false, |c| c > cpu_limit as f64) {
                    let _ = ch.kill();
                    let _ = ch.wait();
                    break None;
                }
                if t0.elapsed().as_secs() > cpu_limit * 20 {
                    let _ = ch.kill();
                    let _ = ch.wait();
                    let _ = std::fs::remove_file(&file);
                    return Err(format!("child {} used less than {} s of CPU time but did not answer within {} s of wall time", tag, cpu_limit, cpu_limit * 20));
                }
                std::thread::sleep(std::time::Duration::from_millis(20));
            }
        }
    };
    let _ = std::fs::remove_file(&file);
    let Some(status) = status else {
        return Ok((Some(("hang".into(), format!("no answer within {} s of CPU time", cpu_limit))), Value::Null));
    };
    if !status.success() {
        use std::os::unix::process::ExitStatusExt;
        let what = match status.signal() {
            Some(sig) => format!("the process is killed by signal {} ({})", sig, if sig == 6 || sig == 11 { "stack overflow / abort" } else { "unexpected signal" }),
            None => format!("the process exits with status {:?}", status.code()),
        };
        return Ok((Some(("process-abort".into(), what)), Value::Null));
    }
    let mut out = String::new();
    ch.stdout.take().unwrap().read_to_string(&mut out).map_err(|e| e.to_string())?;
    let v: Value = serde_json::from_str(out.trim()).map_err(|e| format!("child output {:?}: {}", out, e))?;
    let failure = v["failure"].as_array().map(|a| (a[0].as_str().unwrap_or("").to_string(), a[1].as_str().unwrap_or("").to_string()));
    Ok((failure, v))
}

/// sizes of the flat families. The quick tier stops at 3*10^4 units: the slowest family (an if / elif chain, whose generation is
/// quadratic in the number of branches) needs about 3 s of CPU time there and about 40 s at 10^5, too close to any fixed limit.
pub fn flat_sizes(thorough: bool) -> &'static [usize] {
    if thorough { &[30_000, 100_000, 300_000] } else { &[10_000, 30_000] }
}

/// CPU-time limit of one child process (VERIF_CHILD_CPU_LIMIT overrides): 40 x the slowest case of the quick tier, and in the thorough
/// tier 3 x the slowest case that answers at all (the 3*10^5 if / elif chain aborts; 10^5 needs about 40 s)
pub fn child_cpu_limit_secs() -> u64 {
    if let Ok(v) = std::env::var("VERIF_CHILD_CPU_LIMIT") {
        if let Ok(n) = v.parse() {
            return n;
        }
    }
    if std::env::var("VERIF_TIER").map_or(false, |t| t == "thorough") { 1800 } else { 120 }
}

/// explore the flat families (sequentially over sizes, kinds in parallel)
type ChildResult = (usize, usize, Result<(Option<(String, String)>, Value), String>);

/// runs the child-process families (this only starts and waits for processes: it runs next to the in-process sweep)
fn run_children(thorough: bool) -> (Vec<ChildResult>, Vec<ChildResult>) {
    let sizes = flat_sizes(thorough);
    let results: Vec<(usize, usize, Result<(Option<(String, String)>, Value), String>)> = std::thread::scope(|sc| {
        let hs: Vec<_> = (0..FLAT_KINDS.len())
            .map(|k| {
                sc.spawn(move || {
                    let mut out = vec![];
                    for n in sizes {
                        let r = run_in_child(&json!({"flat_kind": k, "n": n}), &format!("{}-{}", k, n));
                        let stop = matches!(&r, Ok((Some(_), _)) | Err(_));
                        out.push((k, *n, r));
                        if stop {
                            break; // the larger sizes of a family that already fails add nothing
                        }
                    }
                    out
                })
            })
            .collect();
        hs.into_iter().flat_map(|h| h.join().unwrap()).collect()
    });
    // valid nestings: depth 20 first (a doubling per level shows in the output budget there), then the full depth 64
    let nest_results: Vec<(usize, usize, Result<(Option<(String, String)>, Value), String>)> = std::thread::scope(|sc| {
        let hs: Vec<_> = (0..NEST_VALID.len())
            .map(|k| {
                sc.spawn(move || {
                    let mut out = vec![];
                    for n in [20usize, 64] {
                        let r = run_in_child(&json!({"nest_kind": k, "n": n}), &format!("nest-{}-{}", k, n));
                        let stop = matches!(&r, Ok((Some(_), _)) | Err(_));
                        out.push((k, n, r));
                        if stop {
                            break;
                        }
                    }
                    out
                })
            })
            .collect();
        hs.into_iter().flat_map(|h| h.join().unwrap()).collect()
    });
    (results, nest_results)
}

fn merge_children(rep: &mut Report, results: Vec<ChildResult>, nest_results: Vec<ChildResult>) {
    for (k, n, r) in nest_results {
        rep.states += 1;
        rep.transitions += 1;
        rep.evaluations += 1;
        rep.count("space:valid-nestings-in-child-processes", 1);
        match r {
            Err(m) => rep.engine_error("C01", m),
            Ok((None, v)) => {
                rep.outcome(&("nest", k, v["diagnostics"].as_u64().unwrap_or(0).min(3), v["output_bytes"].as_u64().unwrap_or(0) / 4096));
                rep.nontrivial_case(&("nest", k, n));
            }
            Ok((Some((class, detail)), _)) => {
                rep.outcome(&("nest-failure", k, class.clone()));
                rep.violation(Violation {
                    fingerprint: format!("{}|{}", class, NEST_VALID[k].0),
                    what: format!("{} on the nesting {:?} + {:?} x {} + {:?} + {:?} x {} + {:?}: {}", class, NEST_VALID[k].1, NEST_VALID[k].2, n, NEST_VALID[k].3, NEST_VALID[k].4, n, NEST_VALID[k].5, detail),
                    replay: json!({"engine": "c01", "nest_kind": k, "n": n, "class": class}),
                });
            }
        }
    }
    for (k, n, r) in results {
        rep.states += 1;
        rep.transitions += 1;
        rep.evaluations += 1;
        rep.count("space:flat-families-in-child-processes", 1);
        match r {
            Err(m) => rep.engine_error("C01", m),
            Ok((None, v)) => {
                rep.outcome(&("flat", k, v["diagnostics"].as_u64().unwrap_or(0).min(3)));
                rep.nontrivial_case(&(k, n));
            }
            Ok((Some((class, detail)), _)) => {
                rep.outcome(&("flat-failure", k, class.clone()));
                rep.violation(Violation {
                    fingerprint: format!("{}|{}", class, FLAT_KINDS[k].0),
                    what: format!("{} on the flat input {:?} + {:?} x {} + {:?} ({} bytes, nesting depth 1): {}", class, FLAT_KINDS[k].1, FLAT_KINDS[k].2, n, FLAT_KINDS[k].3, flat_case(k, n).len(), detail),
                    replay: json!({"engine": "c01", "flat_kind": k, "n": n, "class": class}),
                });
            }
        }
    }
}

pub fn replay(v: &Value) -> Value {
    silence_panics();
    if v["flat_kind"].is_u64() || v["nest_kind"].is_u64() {
        let spec = if v["flat_kind"].is_u64() { json!({"flat_kind": v["flat_kind"], "n": v["n"]}) } else { json!({"nest_kind": v["nest_kind"], "n": v["n"]}) };
        let a = run_in_child(&spec, "replay-a");
        let b = run_in_child(&spec, "replay-b");
        let cls = |r: &Result<(Option<(String, String)>, Value), String>| match r {
            Ok((f, _)) => f.as_ref().map(|x| x.0.clone()),
            Err(m) => Some(format!("machinery: {}", m)),
        };
        return json!({"deterministic": cls(&a) == cls(&b), "failure": cls(&a).map(|c| json!({"class": c, "detail": a.ok().and_then(|x| x.0).map(|x| x.1)}))});
    }
    let case = Case::from_json(&v["case"]).expect("bad replay file");
    let a = run_case(&case);
    let b = run_case(&case);
    let fa = a.failure.as_ref().map(|f| f.0.clone());
    let fb = b.failure.as_ref().map(|f| f.0.clone());
    json!({"deterministic": fa == fb, "failure": a.failure.map(|f| json!({"class": f.0, "detail": f.1})), "fuel": a.fuel, "output_bytes": a.out_len})
}
