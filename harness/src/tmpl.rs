//! Driving the real template compiler through its public API.

use crate::common::guarded;
use glass_easel_template_compiler::parse::{ParseError, ParseErrorLevel};
use glass_easel_template_compiler::stringify::{Stringifier, Stringify};
use glass_easel_template_compiler::{verif_hooks, TmplGroup};
use serde_json::{json, Value};

pub fn level_num(l: &ParseErrorLevel) -> u8 {
    match l {
        ParseErrorLevel::Note => 1,
        ParseErrorLevel::Warn => 2,
        ParseErrorLevel::Error => 3,
        ParseErrorLevel::Fatal => 4,
    }
}

/// The engines name a diagnostic kind by the message it had at the pinned commit; the name is taken from the
/// VARIANT, so a rewording of the message in the repository does not change what the checks look for.
pub fn canonical_kind(k: &glass_easel_template_compiler::parse::ParseErrorKind) -> String {
    use glass_easel_template_compiler::parse::ParseErrorKind as K;
    #[allow(unreachable_patterns)]
    match k {
        K::UnexpectedCharacter => "unexpected character".into(),
        K::UnexpectedExpressionCharacter => "unexpected character inside expression".into(),
        K::UnknownMetaTag => "unknown meta tag".into(),
        K::MissingExpressionEnd => "missing expression end".into(),
        K::IllegalEntity => "illegal entity".into(),
        K::IncompleteTag => "incomplete tag".into(),
        K::MissingEndTag => "missing end tag".into(),
        K::IllegalNamePrefix => "illegal name prefix".into(),
        K::InvalidAttributePrefix => "invalid attribute prefix".into(),
        K::InvalidAttributeName => "invalid attribute name".into(),
        K::InvalidAttributeValue => "invalid attribute value".into(),
        K::InvalidAttribute => "invalid attribute".into(),
        K::DuplicatedAttribute => "duplicated attribute".into(),
        K::DuplicatedName => "duplicated name".into(),
        K::AvoidUppercaseLetters => "avoid uppercase letters".into(),
        K::UnexpectedWhitespace => "unexpected whitespace".into(),
        K::MissingAttributeValue => "missing attribute value".into(),
        K::DataBindingNotAllowed => "data bindings are not allowed for this attribute".into(),
        K::InvalidIdentifier => "not a valid identifier".into(),
        K::InvalidScopeName => "not a valid identifier as scope name".into(),
        K::ChildNodesNotAllowed => "child nodes are not allowed for this element".into(),
        K::IllegalEscapeSequence => "illegal escape sequence".into(),
        K::IncompleteConditionExpression => "incomplete condition expression".into(),
        K::UnmatchedBracket => "unmatched bracket".into(),
        K::UnmatchedParenthesis => "unmatched parenthesis".into(),
        K::MissingModuleName => "missing module name".into(),
        K::MissingSourcePath => "missing source path".into(),
        K::UnsupportedSyntax => "this syntax has not been supported yet".into(),
        K::ShouldQuoted => "should be quoted".into(),
        K::EmptyExpression => "the expression is empty".into(),
        K::InvalidEndTag => "invalid end tag".into(),
        other => other.to_string(),
    }
}

pub fn diag_json(d: &ParseError) -> Value {
    json!({
        "kind": canonical_kind(&d.kind),
        "code": d.code(),
        "level": level_num(&d.level()),
        "start": [d.location.start.line, d.location.start.utf16_col],
        "end": [d.location.end.line, d.location.end.utf16_col],
    })
}

pub fn max_level(ds: &[ParseError]) -> u8 {
    ds.iter().map(|d| level_num(&d.level())).max().unwrap_or(0)
}

#[derive(Default)]
pub struct TmplRun {
    pub diags: Vec<(String, Vec<ParseError>)>,
    /// name -> output (Ok) or error message (Err: a TmplError is a normal return)
    pub outputs: Vec<(String, Result<String, String>)>,
    /// first panic: (stage, message)
    pub panic: Option<(String, String)>,
    pub parse_fuel: u64,
}

impl TmplRun {
    pub fn output(&self, name: &str) -> Option<&str> {
        self.outputs
            .iter()
            .find(|(n, _)| n == name)
            .and_then(|(_, r)| r.as_ref().ok().map(|s| s.as_str()))
    }
}

pub fn stringify_with(path: &str, src: &str, mangling: bool) -> Result<(String, Vec<ParseError>), String> {
    guarded(|| {
        let (template, mut ps) = glass_easel_template_compiler::parse::parse(path, src);
        let diags = ps.take_warnings();
        let mut st = Stringifier::new(String::new(), path, src);
        st.set_mangling(mangling);
        template.stringify_write(&mut st).unwrap();
        let (s, _sm) = st.finish();
        (s, diags)
    })
}

/// Which emit APIs to call.
#[derive(Clone, Copy)]
pub struct Want {
    pub per_file: bool,
    pub groups: bool,
    pub wx: bool,
    pub runtime: bool,
    pub stringify: bool,
}

impl Want {
    pub const ALL: Want = Want { per_file: true, groups: true, wx: true, runtime: true, stringify: true };
    pub const GROUPS: Want = Want { per_file: false, groups: true, wx: false, runtime: false, stringify: false };
}

/// Build a group from (path, source) files and scripts and call the emit APIs.
/// `fuel` (if non-zero) limits the parser steps per file.
pub fn compile(files: &[(String, String)], scripts: &[(String, String)], want: Want, fuel: u64) -> TmplRun {
    compile_with_extra(files, scripts, want, fuel, None)
}

/// `extra`: the extra runtime script of the group (`set_extra_runtime_script`)
pub fn compile_with_extra(files: &[(String, String)], scripts: &[(String, String)], want: Want, fuel: u64, extra: Option<&str>) -> TmplRun {
    compile_with_extras(files, scripts, want, fuel, extra, None)
}

/// `import_extra`: a second group holding one template `zz/imported` and this extra runtime script is imported into the group
pub fn compile_with_extras(files: &[(String, String)], scripts: &[(String, String)], want: Want, fuel: u64, extra: Option<&str>, import_extra: Option<&str>) -> TmplRun {
    let mut run = TmplRun::default();
    let mut group = TmplGroup::new();
    if let Some(e) = extra {
        group.set_extra_runtime_script(e);
    }
    for (path, src) in files {
        verif_hooks::set_fuel(if fuel == 0 { u64::MAX } else { fuel });
        let r = guarded(|| group.add_tmpl(path, src));
        run.parse_fuel += verif_hooks::fuel_used();
        verif_hooks::set_fuel(u64::MAX);
        match r {
            Ok(d) => run.diags.push((path.clone(), d)),
            Err(m) => {
                run.panic = Some((format!("add_tmpl:{}", path), m));
                return run;
            }
        }
    }
    for (path, src) in scripts {
        group.add_script(path, src);
    }
    if let Some(e2) = import_extra {
        let mut g2 = TmplGroup::new();
        g2.set_extra_runtime_script(e2);
        g2.add_tmpl("zz/imported", "<i/>");
        if let Err(m) = guarded(|| group.import_group(&g2)) {
            run.panic = Some(("import_group".into(), m));
            return run;
        }
    }
    let mut call = |name: String, f: &dyn Fn() -> Result<String, String>| {
        if run.panic.is_some() {
            return;
        }
        match guarded(|| f()) {
            Ok(r) => run.outputs.push((name, r)),
            Err(m) => run.panic = Some((name, m)),
        }
    };
    if want.per_file {
        for (path, _) in files {
            call(format!("gen:{}", path), &|| group.get_tmpl_gen_object(path).map_err(|e| e.message));
        }
    }
    if want.groups {
        call("groups".into(), &|| group.get_tmpl_gen_object_groups().map_err(|e| e.message));
    }
    if want.wx {
        call("wx".into(), &|| group.get_wx_gen_object_groups().map_err(|e| e.message));
    }
    if want.runtime {
        call("runtime".into(), &|| Ok(group.get_runtime_string()));
        call("globals".into(), &|| group.export_globals().map_err(|e| e.message));
        call("scripts".into(), &|| group.export_all_scripts().map_err(|e| e.message));
    }
    if want.stringify {
        for (path, src) in files {
            call(format!("stringify:{}", path), &|| {
                group.stringify_tmpl(path).ok_or_else(|| "no such template".to_string())
            });
            call(format!("stringify_mangled:{}", path), &|| {
                // mangled printing goes through the public Stringifier on a fresh parse
                let (template, _ps) = glass_easel_template_compiler::parse::parse(path, src);
                let mut st = Stringifier::new(String::new(), path, src);
                st.set_mangling(true);
                template.stringify_write(&mut st).map_err(|e| e.to_string())?;
                Ok(st.finish().0)
            });
        }
    }
    run
}

pub fn run_to_json(run: &TmplRun) -> Value {
    let mut outs = serde_json::Map::new();
    for (n, r) in &run.outputs {
        match r {
            Ok(s) => outs.insert(n.clone(), json!({"ok": s})),
            Err(e) => outs.insert(n.clone(), json!({"err": e})),
        };
    }
    let mut diags = serde_json::Map::new();
    for (p, ds) in &run.diags {
        diags.insert(p.clone(), Value::Array(ds.iter().map(diag_json).collect()));
    }
    json!({
        "outputs": outs,
        "diags": diags,
        "panic": run.panic.as_ref().map(|(s, m)| json!({"stage": s, "msg": m})),
    })
}
