//! Shared machinery: reports, parallel index-space runner, panic capture.

use serde_json::{json, Map, Value};
use std::collections::{BTreeMap, HashSet};
use std::hash::{Hash, Hasher};
use std::panic::{catch_unwind, AssertUnwindSafe};
use std::sync::atomic::{AtomicU64, AtomicUsize, Ordering};
use std::sync::Mutex;

pub fn fnv(s: &[u8]) -> u64 {
    let mut h: u64 = 0xcbf29ce484222325;
    for b in s {
        h ^= *b as u64;
        h = h.wrapping_mul(0x100000001b3);
    }
    h
}

pub fn hash_of<T: Hash>(t: &T) -> u64 {
    let mut h = Fnv(0xcbf29ce484222325);
    t.hash(&mut h);
    h.0
}

struct Fnv(u64);
impl Hasher for Fnv {
    fn finish(&self) -> u64 {
        self.0
    }
    fn write(&mut self, bytes: &[u8]) {
        for b in bytes {
            self.0 ^= *b as u64;
            self.0 = self.0.wrapping_mul(0x100000001b3);
        }
    }
}

#[derive(Clone, Debug)]
pub struct Violation {
    /// identifies the specific failing case class (matched against known_findings.jsonl)
    pub fingerprint: String,
    pub what: String,
    /// self-contained replay record (engine specific)
    pub replay: Value,
}

/// One partial report per worker thread; merged at the end.
#[derive(Default)]
pub struct Report {
    pub states: u64,
    pub transitions: u64,
    pub evaluations: u64,
    pub nontrivial: u64,
    pub outcomes: HashSet<u64>,
    pub nontrivial_set: HashSet<u64>,
    pub samples: Vec<Value>,
    pub violations: BTreeMap<String, (Violation, u64)>,
    pub counters: BTreeMap<String, u64>,
    pub machinery_errors: Vec<String>,
}

impl Report {
    pub fn new() -> Self {
        Default::default()
    }
    pub fn count(&mut self, key: &str, n: u64) {
        *self.counters.entry(key.to_string()).or_insert(0) += n;
    }
    pub fn outcome<T: Hash>(&mut self, t: &T) {
        if self.outcomes.len() < 2_000_000 {
            self.outcomes.insert(hash_of(t));
        }
    }
    /// register a distinct non-trivial case (by hash of its identity)
    pub fn nontrivial_case<T: Hash>(&mut self, t: &T) {
        self.nontrivial += 1;
        if self.nontrivial_set.len() < 4_000_000 {
            self.nontrivial_set.insert(hash_of(t));
        }
    }
    pub fn sample(&mut self, v: Value) {
        if self.samples.len() < 6 {
            self.samples.push(v);
        }
    }
    /// `Err` strings produced by `panic_err` are compiler panics; anything else is a machinery problem.
    pub fn engine_error(&mut self, property: &str, m: String) {
        match m.strip_prefix("PANIC\u{1}") {
            Some(rest) => {
                let mut it = rest.splitn(3, '\u{1}');
                let (input, opts, msg) = (it.next().unwrap_or(""), it.next().unwrap_or("null"), it.next().unwrap_or(""));
                let options = serde_json::from_str(opts).unwrap_or(Value::Null);
                self.subject_panic(property, input, options, msg);
            }
            None => self.machinery_errors.push(m),
        }
    }

    /// The compiler panicked on an input of a property's space: the property cannot hold there (no output at all).
    pub fn subject_panic(&mut self, property: &str, input: &str, options: Value, msg: &str) {
        let class: String = msg.chars().map(|c| if c.is_ascii_digit() { 'N' } else { c }).take(48).collect();
        self.violation(Violation {
            fingerprint: format!("{}|compiler-panic|{}", property, class),
            what: format!("the compiler panics ({}) on the well-formed stylesheet {:?} with options {}", msg.chars().take(200).collect::<String>(), input, options),
            replay: serde_json::json!({"engine": property.to_lowercase(), "kind": "panic", "input": input, "options": options}),
        });
    }

    pub fn violation(&mut self, v: Violation) {
        let key = v.fingerprint.clone();
        if let Some(e) = self.violations.get_mut(&key) {
            e.1 += 1;
            // keep the smallest replay (shortest serialisation) as the representative
            let a = e.0.replay.to_string().len();
            let b = v.replay.to_string().len();
            if b < a {
                e.0 = v;
            }
            return;
        }
        if self.violations.len() < 400 {
            self.violations.insert(key, (v, 1));
        } else {
            self.count("violations_beyond_cap", 1);
        }
    }
    pub fn merge(&mut self, o: Report) {
        self.states += o.states;
        self.transitions += o.transitions;
        self.evaluations += o.evaluations;
        self.nontrivial += o.nontrivial;
        self.outcomes.extend(o.outcomes);
        self.nontrivial_set.extend(o.nontrivial_set);
        for s in o.samples {
            if self.samples.len() < 12 {
                self.samples.push(s);
            }
        }
        for (_, (v, n)) in o.violations {
            let key = v.fingerprint.clone();
            if let Some(e) = self.violations.get_mut(&key) {
                e.1 += n;
                if v.replay.to_string().len() < e.0.replay.to_string().len() {
                    e.0 = v;
                }
            } else {
                self.violations.insert(key, (v, n));
            }
        }
        for (k, n) in o.counters {
            *self.counters.entry(k).or_insert(0) += n;
        }
        self.machinery_errors.extend(o.machinery_errors);
    }

    /// The result document consumed by ./check
    pub fn to_result(
        &self,
        property: &str,
        rule: &str,
        bound: Value,
        exhaustive: bool,
        assumptions: &[&str],
        extra: Map<String, Value>,
    ) -> Value {
        let mut cov = Map::new();
        cov.insert("states".into(), json!(self.states.max(1)));
        cov.insert("transitions".into(), json!(self.transitions.max(1)));
        cov.insert("traces_validated_against_impl".into(), json!(self.evaluations));
        cov.insert("evaluations".into(), json!(self.evaluations));
        cov.insert(
            "distinct_nontrivial".into(),
            json!(self.nontrivial_set.len() as u64),
        );
        cov.insert("nontrivial_evaluations".into(), json!(self.nontrivial));
        cov.insert("distinct_outcomes".into(), json!(self.outcomes.len() as u64));
        cov.insert("rule".into(), json!(rule));
        cov.insert("samples".into(), json!(self.samples));
        cov.insert("bound".into(), bound);
        cov.insert("exhaustive".into(), json!(exhaustive));
        let mut counters = Map::new();
        for (k, v) in &self.counters {
            counters.insert(k.clone(), json!(v));
        }
        cov.insert("counters".into(), Value::Object(counters));
        for (k, v) in extra {
            cov.insert(k, v);
        }
        let viols: Vec<Value> = self
            .violations
            .values()
            .map(|(v, n)| {
                json!({"fingerprint": v.fingerprint, "what": v.what, "replay": v.replay, "occurrences": n})
            })
            .collect();
        json!({
            "property": property,
            "coverage": Value::Object(cov),
            "violations": viols,
            "assumptions": assumptions,
            "machinery_errors": self.machinery_errors,
        })
    }
}

/// Run `f(index, &mut report)` for every index in 0..n on `threads` threads (dynamic chunks).
/// `f` must be deterministic in `index`. A panic inside `f` is a machinery error (the
/// engines catch the panics of the code under test themselves).
pub fn par_run<F>(n: u64, threads: usize, f: F) -> Report
where
    F: Fn(u64, &mut Report) + Sync,
{
    par_run_watched(n, threads, 0, &|_| {}, f)
}

/// Like `par_run`, with a watchdog on the CPU time of each worker thread (not on the wall clock: the verdict must not depend on
/// how busy the machine is): when one index has consumed more than `timeout_s` seconds of CPU time `on_hang(index)` is called
/// from the monitor thread (it is expected to report and exit the process, the stuck thread cannot be recovered).
pub fn par_run_watched<F>(n: u64, threads: usize, timeout_s: u64, on_hang: &(dyn Fn(u64) + Sync), f: F) -> Report
where
    F: Fn(u64, &mut Report) + Sync,
{
    let next = AtomicU64::new(0);
    let chunk: u64 = (n / (threads as u64 * 64)).clamp(1, 4096);
    let total = Mutex::new(Report::new());
    let live = AtomicUsize::new(threads);
    // per thread: (current index + 1, start time in ms since `t0`)
    let beats: Vec<(AtomicU64, AtomicU64)> = (0..threads).map(|_| (AtomicU64::new(0), AtomicU64::new(0))).collect();
    // kernel thread ids of the workers (for /proc/self/task/<tid>/stat)
    let tids: Vec<AtomicU64> = (0..threads).map(|_| AtomicU64::new(0)).collect();
    let t0 = std::time::Instant::now();
    std::thread::scope(|s| {
        for t in 0..threads {
            let b = std::thread::Builder::new().stack_size(256 << 20);
            let beats = &beats;
            let tids = &tids;
            let next = &next;
            let total = &total;
            let live = &live;
            let f = &f;
            b.spawn_scoped(s, move || {
                if let Ok(l) = std::fs::read_link("/proc/thread-self") {
                    if let Some(t2) = l.file_name().and_then(|x| x.to_str()).and_then(|x| x.parse::<u64>().ok()) {
                        tids[t].store(t2, Ordering::SeqCst);
                    }
                }
                let mut rep = Report::new();
                loop {
                    let start = next.fetch_add(chunk, Ordering::SeqCst);
                    if start >= n {
                        break;
                    }
                    let end = (start + chunk).min(n);
                    for i in start..end {
                        beats[t].1.store(t0.elapsed().as_millis() as u64, Ordering::SeqCst);
                        beats[t].0.store(i + 1, Ordering::SeqCst);
                        let r = catch_unwind(AssertUnwindSafe(|| f(i, &mut rep)));
                        if let Err(e) = r {
                            rep.machinery_errors
                                .push(format!("engine panic at index {}: {}", i, panic_msg(&e)));
                        }
                    }
                }
                beats[t].0.store(0, Ordering::SeqCst);
                total.lock().unwrap().merge(rep);
                live.fetch_sub(1, Ordering::SeqCst);
            })
            .unwrap();
        }
        if timeout_s > 0 {
            let beats = &beats;
            let tids = &tids;
            let live = &live;
            s.spawn(move || {
                let cpu_ms = |tid: u64| -> Option<u64> {
                    let st = std::fs::read_to_string(format!("/proc/self/task/{}/stat", tid)).ok()?;
                    let rest = &st[st.rfind(')')? + 2..];
                    let f: Vec<&str> = rest.split(' ').collect();
                    let ut: u64 = f.get(11)?.parse().ok()?;
                    let stt: u64 = f.get(12)?.parse().ok()?;
                    Some((ut + stt) * 10)
                };
                // per thread: (index seen at the previous poll, CPU time of the thread when that index was first seen twice)
                let mut watch: Vec<(u64, Option<u64>)> = vec![(0, None); beats.len()];
                while live.load(Ordering::SeqCst) > 0 {
                    std::thread::sleep(std::time::Duration::from_millis(200));
                    let now = t0.elapsed().as_millis() as u64;
                    for (t, b) in beats.iter().enumerate() {
                        let idx = b.0.load(Ordering::SeqCst);
                        let st = b.1.load(Ordering::SeqCst);
                        if idx == 0 || idx != watch[t].0 {
                            watch[t] = (idx, None);
                            continue;
                        }
                        let tid = tids[t].load(Ordering::SeqCst);
                        match (cpu_ms(tid), watch[t].1) {
                            (Some(c), None) => watch[t].1 = Some(c),
                            (Some(c), Some(c0)) => {
                                if c > c0 + timeout_s * 1000 && b.0.load(Ordering::SeqCst) == idx {
                                    on_hang(idx - 1);
                                }
                            }
                            // no CPU accounting available: fall back to twenty times the limit on the wall clock
                            (None, _) => {
                                if now > st + timeout_s * 20_000 && b.0.load(Ordering::SeqCst) == idx {
                                    on_hang(idx - 1);
                                }
                            }
                        }
                    }
                }
            });
        }
    });
    total.into_inner().unwrap()
}

thread_local! {
    pub static HEARTBEAT: std::cell::Cell<u64> = std::cell::Cell::new(0);
}

pub fn panic_msg(e: &Box<dyn std::any::Any + Send>) -> String {
    if let Some(s) = e.downcast_ref::<&str>() {
        s.to_string()
    } else if let Some(s) = e.downcast_ref::<String>() {
        s.clone()
    } else {
        "<non-string panic>".to_string()
    }
}

/// Catch a panic of the code under test and return its message.
pub fn guarded<T>(f: impl FnOnce() -> T) -> Result<T, String> {
    catch_unwind(AssertUnwindSafe(f)).map_err(|e| panic_msg(&e))
}

pub fn silence_panics() {
    std::panic::set_hook(Box::new(|_| {}));
}

pub fn threads() -> usize {
    std::env::var("VERIF_THREADS")
        .ok()
        .and_then(|x| x.parse().ok())
        .unwrap_or_else(|| {
            std::thread::available_parallelism()
                .map(|x| x.get())
                .unwrap_or(4)
        })
}

pub fn write_result(path: &str, v: &Value) {
    std::fs::write(path, serde_json::to_vec(v).unwrap()).expect("cannot write result file");
}

/// Mixed-radix decoding helper: digits of `i` in the given bases (least significant first).
pub fn unrank(mut i: u64, bases: &[u64]) -> Vec<u64> {
    let mut out = Vec::with_capacity(bases.len());
    for b in bases {
        out.push(i % b);
        i /= b;
    }
    out
}

/// All strings over `alpha` with length in 0..=max_len are numbered 0..count(max_len);
/// index -> symbol indices.
pub fn str_space_size(alpha: u64, max_len: u32) -> u64 {
    let mut total = 0u64;
    let mut p = 1u64;
    for _ in 0..=max_len {
        total += p;
        p = p.saturating_mul(alpha);
    }
    total
}

pub fn str_unrank(mut i: u64, alpha: u64, max_len: u32) -> Vec<usize> {
    let mut len = 0u32;
    let mut p = 1u64;
    loop {
        if i < p {
            break;
        }
        i -= p;
        p *= alpha;
        len += 1;
        assert!(len <= max_len);
    }
    let mut out = vec![0usize; len as usize];
    for k in (0..len as usize).rev() {
        out[k] = (i % alpha) as usize;
        i /= alpha;
    }
    out
}

/// Encodes a panic of the compiler (stage, message) on `input` as an `Err` string that `Report::engine_error` recognises.
pub fn panic_err(input: &str, options: &Value, stage: &str, msg: &str) -> String {
    format!("PANIC\u{1}{}\u{1}{}\u{1}{}: {}", input, options, stage, msg)
}
