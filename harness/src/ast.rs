//! Dump of the located AST nodes of a parsed template and of the stringifier's source map (C16).
//!
//! Every item: {"k": kind, "n": name / value (as stored in the AST), "s": [line, col], "e": [line, col],
//! "p": index of the parent item (or -1)}.

use glass_easel_template_compiler::parse::expr::{ArrayFieldKind, Expression, ObjectFieldKind};
use glass_easel_template_compiler::parse::tag::*;
use glass_easel_template_compiler::parse::{Position, TemplateStructure};
use glass_easel_template_compiler::stringify::{Stringifier, Stringify};
use serde_json::{json, Value as J};
use std::ops::Range;

struct Out {
    items: Vec<J>,
}

impl Out {
    fn push(&mut self, kind: &str, name: Option<&str>, loc: &Range<Position>, parent: i64) -> i64 {
        self.items.push(json!({
            "k": kind, "n": name,
            "s": [loc.start.line, loc.start.utf16_col], "e": [loc.end.line, loc.end.utf16_col], "p": parent,
        }));
        (self.items.len() - 1) as i64
    }
}

fn expr(o: &mut Out, e: &Expression, parent: i64) {
    let loc = e.location();
    macro_rules! bin {
        ($name:expr, $l:expr, $r:expr, $op:expr) => {{
            let me = o.push($name, None, &loc, parent);
            expr(o, $l, me);
            o.push("operator", None, $op, me);
            expr(o, $r, me);
        }};
    }
    macro_rules! un {
        ($name:expr, $v:expr, $op:expr) => {{
            let me = o.push($name, None, &loc, parent);
            o.push("operator", None, $op, me);
            expr(o, $v, me);
        }};
    }
    match e {
        Expression::ScopeRef { index, .. } => {
            o.push("scope-ref", Some(&index.to_string()), &loc, parent);
        }
        Expression::DataField { name, .. } => {
            o.push("data-field", Some(name), &loc, parent);
        }
        Expression::ToStringWithoutUndefined { value, .. } => {
            // synthetic wrapper of a `{{ }}` piece inside mixed text: its own location is the closing braces
            expr(o, value, parent);
        }
        Expression::LitUndefined { .. } => {
            o.push("lit-undefined", Some("undefined"), &loc, parent);
        }
        Expression::LitNull { .. } => {
            o.push("lit-null", Some("null"), &loc, parent);
        }
        Expression::LitStr { value, .. } => {
            o.push("lit-str", Some(value), &loc, parent);
        }
        Expression::LitInt { value, .. } => {
            o.push("lit-int", Some(&value.to_string()), &loc, parent);
        }
        Expression::LitFloat { value, .. } => {
            o.push("lit-float", Some(&value.to_string()), &loc, parent);
        }
        Expression::LitBool { value, .. } => {
            o.push("lit-bool", Some(&value.to_string()), &loc, parent);
        }
        Expression::LitObj { fields, brace_location } => {
            let me = o.push("lit-obj", None, &loc, parent);
            o.push("brace", Some("{"), &brace_location.0, me);
            for f in fields {
                match f {
                    ObjectFieldKind::Named { name, location, value, .. } => {
                        o.push("object-key", Some(name), location, me);
                        expr(o, value, me);
                    }
                    ObjectFieldKind::Spread { value, location } => {
                        o.push("operator", Some("..."), location, me);
                        expr(o, value, me);
                    }
                }
            }
            o.push("brace", Some("}"), &brace_location.1, me);
        }
        Expression::LitArr { fields, bracket_location } => {
            let me = o.push("lit-arr", None, &loc, parent);
            o.push("bracket", Some("["), &bracket_location.0, me);
            for f in fields {
                match f {
                    ArrayFieldKind::Normal { value } => expr(o, value, me),
                    ArrayFieldKind::Spread { value, location } => {
                        o.push("operator", Some("..."), location, me);
                        expr(o, value, me);
                    }
                    ArrayFieldKind::EmptySlot => {}
                }
            }
            o.push("bracket", Some("]"), &bracket_location.1, me);
        }
        Expression::StaticMember { obj, field_name, dot_location, field_location } => {
            let me = o.push("static-member", None, &loc, parent);
            expr(o, obj, me);
            o.push("operator", Some("."), dot_location, me);
            o.push("member-name", Some(field_name), field_location, me);
        }
        Expression::DynamicMember { obj, field_name, bracket_location } => {
            let me = o.push("dynamic-member", None, &loc, parent);
            expr(o, obj, me);
            o.push("bracket", Some("["), &bracket_location.0, me);
            expr(o, field_name, me);
            o.push("bracket", Some("]"), &bracket_location.1, me);
        }
        Expression::FuncCall { func, args, paren_location } => {
            let me = o.push("call", None, &loc, parent);
            expr(o, func, me);
            o.push("paren", Some("("), &paren_location.0, me);
            for a in args {
                expr(o, a, me);
            }
            o.push("paren", Some(")"), &paren_location.1, me);
        }
        Expression::Reverse { value, location } => un!("unary", value, location),
        Expression::BitReverse { value, location } => un!("unary", value, location),
        Expression::Positive { value, location } => un!("unary", value, location),
        Expression::Negative { value, location } => un!("unary", value, location),
        Expression::TypeOf { value, location } => un!("unary", value, location),
        Expression::Void { value, location } => un!("unary", value, location),
        Expression::Multiply { left, right, location }
        | Expression::Divide { left, right, location }
        | Expression::Remainer { left, right, location }
        | Expression::Plus { left, right, location }
        | Expression::Minus { left, right, location }
        | Expression::LeftShift { left, right, location }
        | Expression::RightShift { left, right, location }
        | Expression::UnsignedRightShift { left, right, location }
        | Expression::Lt { left, right, location }
        | Expression::Gt { left, right, location }
        | Expression::Lte { left, right, location }
        | Expression::Gte { left, right, location }
        | Expression::InstanceOf { left, right, location }
        | Expression::Eq { left, right, location }
        | Expression::Ne { left, right, location }
        | Expression::EqFull { left, right, location }
        | Expression::NeFull { left, right, location }
        | Expression::BitAnd { left, right, location }
        | Expression::BitXor { left, right, location }
        | Expression::BitOr { left, right, location }
        | Expression::LogicAnd { left, right, location }
        | Expression::LogicOr { left, right, location }
        | Expression::NullishCoalescing { left, right, location } => bin!("binary", left, right, location),
        Expression::Cond { cond, true_br, false_br, question_location, colon_location } => {
            let me = o.push("cond", None, &loc, parent);
            expr(o, cond, me);
            o.push("operator", Some("?"), question_location, me);
            expr(o, true_br, me);
            o.push("operator", Some(":"), colon_location, me);
            expr(o, false_br, me);
        }
        _ => {
            o.push("unknown-expression", None, &loc, parent);
        }
    }
}

fn value(o: &mut Out, v: &Value, parent: i64, what: &str) {
    match v {
        Value::Static { value, location, .. } => {
            o.push(&format!("static-{}", what), Some(value), location, parent);
        }
        Value::Dynamic { expression, double_brace_location, .. } => {
            let me = o.push(&format!("dynamic-{}", what), None, &v.location(), parent);
            // a mixed value is a chain of `+` over literal pieces and `{{ }}` pieces
            fn pieces(o: &mut Out, e: &Expression, me: i64) {
                match e {
                    Expression::Plus { left, right, .. }
                        if is_piece(left) && is_piece(right) =>
                    {
                        pieces(o, left, me);
                        pieces(o, right, me);
                    }
                    Expression::LitStr { value, location } if true => {
                        o.push("static-piece", Some(value), location, me);
                    }
                    Expression::ToStringWithoutUndefined { value, .. } => expr(o, value, me),
                    other => expr(o, other, me),
                }
            }
            fn is_piece(e: &Expression) -> bool {
                match e {
                    Expression::LitStr { .. } | Expression::ToStringWithoutUndefined { .. } => true,
                    Expression::Plus { left, right, .. } => is_piece(left) && is_piece(right),
                    _ => false,
                }
            }
            // (a chain of string literals alone is an expression the user wrote: the parser builds the pieces form only for a value
            // that holds at least one binding next to text or to another binding)
            fn has_binding(e: &Expression) -> bool {
                match e {
                    Expression::ToStringWithoutUndefined { .. } => true,
                    Expression::Plus { left, right, .. } => has_binding(left) || has_binding(right),
                    _ => false,
                }
            }
            let mixed = match &**expression {
                Expression::Plus { left, right, .. } => is_piece(left) && is_piece(right) && has_binding(expression),
                Expression::ToStringWithoutUndefined { .. } => true,
                _ => false,
            };
            if mixed {
                o.items[me as usize]["mixed"] = json!(true);
                pieces(o, expression, me);
            } else {
                o.push("brace-open", Some("{{"), &double_brace_location.0, me);
                expr(o, expression, me);
                o.push("brace-close", Some("}}"), &double_brace_location.1, me);
            }
        }
        _ => {}
    }
}

fn ident(o: &mut Out, kind: &str, i: &Ident, parent: i64) -> i64 {
    o.push(kind, Some(&i.name), &i.location, parent)
}
fn strname(o: &mut Out, kind: &str, i: &StrName, parent: i64) -> i64 {
    o.push(kind, Some(&i.name), &i.location, parent)
}

fn tag_location(o: &mut Out, t: &TagLocation, parent: i64) {
    o.push("tag-open", Some("<"), &t.start.0, parent);
    o.push("tag-open-end", Some(">"), &t.start.1, parent);
    if let Some(end) = &t.end {
        o.push("tag-close", Some("/"), &t.close, parent);
        o.push("end-tag-open", Some("<"), &end.0, parent);
        o.push("end-tag-end", Some(">"), &end.1, parent);
    } else {
        o.push("self-close", Some("/"), &t.close, parent);
    }
}

fn common(o: &mut Out, c: &CommonElementAttributes, me: i64) {
    if let Some((loc, v)) = &c.id {
        o.push("attr-name:id", Some("id"), loc, me);
        value(o, v, me, "value");
    }
    if let Some((loc, v)) = &c.slot {
        o.push("attr-name:slot", Some("slot"), loc, me);
        value(o, v, me, "value");
    }
    for a in &c.slot_value_refs {
        ident(o, "attr-name:slot-value", &a.name, me);
        strname(o, "scope-name", &a.value, me);
    }
    for a in &c.event_bindings {
        ident(o, "attr-name:event", &a.name, me);
        if let Some(v) = &a.value {
            value(o, v, me, "value");
        }
    }
    for a in &c.data {
        ident(o, "attr-name:data", &a.name, me);
        if let Some(v) = &a.value {
            value(o, v, me, "value");
        }
    }
    for a in &c.marks {
        ident(o, "attr-name:mark", &a.name, me);
        if let Some(v) = &a.value {
            value(o, v, me, "value");
        }
    }
}

fn nodes(o: &mut Out, list: &[Node], parent: i64) {
    for n in list {
        node(o, n, parent);
    }
}

fn node(o: &mut Out, n: &Node, parent: i64) {
    match n {
        Node::Text(v) => value(o, v, parent, "text"),
        Node::Comment(c) => {
            o.push("comment", Some(&c.content), &c.location, parent);
        }
        Node::UnknownMetaTag(t) => {
            o.push("meta-tag", None, &t.location, parent);
        }
        Node::Element(e) => element(o, e, parent),
        _ => {}
    }
}

fn element(o: &mut Out, e: &Element, parent: i64) {
    let me = o.push("element", None, &e.location(), parent);
    tag_location(o, &e.tag_location, me);
    match &e.kind {
        ElementKind::Normal { tag_name, attributes, class, style, change_attributes, worklet_attributes, children, generics, extra_attr, common: c, .. } => {
            ident(o, "tag-name", tag_name, me);
            for a in attributes {
                ident(o, match a.prefix { NormalAttributePrefix::Model(_) => "attr-name:model", _ => "attr-name:plain" }, &a.name, me);
                if let Some(v) = &a.value {
                    value(o, v, me, "value");
                }
            }
            if let ClassAttribute::String(loc, v) = class {
                o.push("attr-name:class", Some("class"), loc, me);
                value(o, v, me, "value");
            }
            if let StyleAttribute::String(loc, v) = style {
                o.push("attr-name:style", Some("style"), loc, me);
                value(o, v, me, "value");
            }
            for a in change_attributes {
                ident(o, "attr-name:change", &a.name, me);
                if let Some(v) = &a.value {
                    value(o, v, me, "value");
                }
            }
            for a in worklet_attributes {
                ident(o, "attr-name:worklet", &a.name, me);
                strname(o, "static-value", &a.value, me);
            }
            for a in generics {
                ident(o, "attr-name:generic", &a.name, me);
                strname(o, "static-value", &a.value, me);
            }
            for a in extra_attr {
                ident(o, "attr-name:extra-attr", &a.name, me);
                strname(o, "static-value", &a.value, me);
            }
            common(o, c, me);
            nodes(o, children, me);
        }
        ElementKind::Pure { children, slot, slot_value_refs, .. } => {
            if let Some((loc, v)) = slot {
                o.push("attr-name:slot", Some("slot"), loc, me);
                value(o, v, me, "value");
            }
            for a in slot_value_refs {
                ident(o, "attr-name:slot-value", &a.name, me);
                strname(o, "scope-name", &a.value, me);
            }
            nodes(o, children, me);
        }
        ElementKind::For { list, item_name, index_name, key, children, .. } => {
            o.push("attr-name:wx:for", Some("wx:for"), &list.0, me);
            value(o, &list.1, me, "value");
            o.push("attr-name:wx:for-item", Some("wx:for-item"), &item_name.0, me);
            strname(o, "scope-name", &item_name.1, me);
            o.push("attr-name:wx:for-index", Some("wx:for-index"), &index_name.0, me);
            strname(o, "scope-name", &index_name.1, me);
            o.push("attr-name:wx:key", Some("wx:key"), &key.0, me);
            strname(o, "static-value", &key.1, me);
            nodes(o, children, me);
        }
        ElementKind::If { branches, else_branch, .. } => {
            for (bi, (loc, v, children)) in branches.iter().enumerate() {
                o.push("attr-name:wx:if", Some(if bi == 0 { "wx:if" } else { "wx:elif" }), loc, me);
                value(o, v, me, "value");
                nodes(o, children, me);
            }
            if let Some((loc, children)) = else_branch {
                o.push("attr-name:wx:else", Some("wx:else"), loc, me);
                nodes(o, children, me);
            }
        }
        ElementKind::TemplateRef { target, data, .. } => {
            o.push("attr-name:is", Some("is"), &target.0, me);
            value(o, &target.1, me, "value");
            o.push("attr-name:data", Some("data"), &data.0, me);
            value(o, &data.1, me, "template-data");
        }
        ElementKind::Include { path, .. } => {
            o.push("attr-name:src", Some("src"), &path.0, me);
            strname(o, "static-value", &path.1, me);
        }
        ElementKind::Slot { name, values, common: c, .. } => {
            o.push("attr-name:name", Some("name"), &name.0, me);
            value(o, &name.1, me, "value");
            for a in values {
                ident(o, "attr-name:slot-element-value", &a.name, me);
                if let Some(v) = &a.value {
                    value(o, v, me, "value");
                }
            }
            common(o, c, me);
        }
        _ => {}
    }
}

pub fn dump(path: &str, src: &str) -> J {
    let (template, _ps) = glass_easel_template_compiler::parse::parse(path, src);
    let mut o = Out { items: vec![] };
    nodes(&mut o, &template.content, -1);
    for t in &template.globals.sub_templates {
        let me = o.push("template-definition", None, &(t.tag_location.start.0.start..t.tag_location.end.as_ref().map(|x| x.1.end).unwrap_or(t.tag_location.start.1.end)), -1);
        tag_location(&mut o, &t.tag_location, me);
        o.push("attr-name:name", Some("name"), &t.name_location, me);
        strname(&mut o, "static-value", &t.name, me);
        nodes(&mut o, &t.content, me);
    }
    for t in &template.globals.imports {
        let me = o.push("import", None, &(t.tag_location.start.0.start..t.tag_location.end.as_ref().map(|x| x.1.end).unwrap_or(t.tag_location.start.1.end)), -1);
        tag_location(&mut o, &t.tag_location, me);
        o.push("attr-name:src", Some("src"), &t.src_location, me);
        strname(&mut o, "static-value", &t.src, me);
    }
    for t in &template.globals.includes {
        let me = o.push("include-global", None, &(t.tag_location.start.0.start..t.tag_location.end.as_ref().map(|x| x.1.end).unwrap_or(t.tag_location.start.1.end)), -1);
        o.push("attr-name:src", Some("src"), &t.src_location, me);
        strname(&mut o, "static-value", &t.src, me);
    }
    for s in &template.globals.scripts {
        match s {
            Script::Inline { tag_location: tl, module_location, module_name, content, content_location, .. } => {
                let me = o.push("script", None, &(tl.start.0.start..tl.end.as_ref().map(|x| x.1.end).unwrap_or(tl.start.1.end)), -1);
                tag_location(&mut o, tl, me);
                o.push("attr-name:module", Some("module"), module_location, me);
                strname(&mut o, "scope-name", module_name, me);
                o.push("script-content", Some(content), content_location, me);
            }
            Script::GlobalRef { tag_location: tl, module_location, module_name, src_location, src, .. } => {
                let me = o.push("script", None, &(tl.start.0.start..tl.end.as_ref().map(|x| x.1.end).unwrap_or(tl.start.1.end)), -1);
                tag_location(&mut o, tl, me);
                o.push("attr-name:module", Some("module"), module_location, me);
                strname(&mut o, "scope-name", module_name, me);
                o.push("attr-name:src", Some("src"), src_location, me);
                strname(&mut o, "static-value", src, me);
            }
            _ => {}
        }
    }
    // the source map of re-printing
    let mut st = Stringifier::new(String::new(), path, src);
    template.stringify_write(&mut st).unwrap();
    let (printed, sm) = st.finish();
    let toks: Vec<J> = sm
        .tokens()
        .map(|t| json!({"dl": t.get_dst_line(), "dc": t.get_dst_col(), "sl": t.get_src_line(), "sc": t.get_src_col(), "name": t.get_name()}))
        .collect();
    json!({"items": o.items, "printed": printed, "map": toks})
}
