//! Dump of located AST nodes and of the stringifier source map (for C16). Filled in later.
use serde_json::{json, Value};
pub fn dump(_path: &str, _src: &str) -> Value { json!({}) }
