//! C20 — compilation is a deterministic function of the set of inputs.
//!
//! parent: enumerates hash seeds, runs one child process per seed under the getrandom shim;
//! child: enumerates file sets x insertion orders x import_group splits in-process (every new
//! HashMap instance takes the next key of the seeded sequence) and reports output digests.

use crate::common::*;
use crate::css::{self, Opts};
use serde_json::{json, Map, Value};
use std::collections::{BTreeMap, BTreeSet, HashMap};

const TEMPLATES: &[(&str, &str)] = &[
    ("a", "<import src=\"b\"/><import src=\"lib/e\"/><template is=\"t\" data=\"{{x, y}}\"/><view class=\"{{p}}\" id=\"{{q}}\" data-r=\"{{r}}\" hidden=\"{{p}}\">{{s}}{{zeta}}{{alpha}}</view>"),
    ("b", "<template name=\"t\"><x>{{x}}{{y}}</x></template><include src=\"c\"/><y a=\"{{k1}}\" b=\"{{k2}}\" c=\"{{k3}}\"/>"),
    ("c", "<wxs module=\"m\">exports.f=function(){return 1}</wxs><c><v slot:u slot:w slot:aa>{{u}}{{w}}{{aa}}{{m.f()}}</v></c>{{f1}}{{f2}}"),
    // ("B" and "b" differ only in case: an order that folds case would leave their relative order to the hash map)
    ("B", "<wxs module=\"n\" src=\"s1.wxs\"/><wxs module=\"o\" src=\"lib/s2\"/>{{n.g}}{{p1}}{{p2}}{{p3}}{{p4}}"),
    ("lib/e", "<template name=\"t\">E{{x}}</template><template name=\"u\">{{y}}</template><z wx:for=\"{{list}}\" wx:key=\"id\">{{item.v}}{{g1}}</z>"),
    ("lib/f", "<import src=\"/a\"/><w bind:tap=\"h\" model:v=\"{{mv}}\" change:p=\"{{cp}}\">{{t1}}{{t2}}{{t3}}</w>"),
];
const SCRIPTS: &[(&str, &str)] = &[("s1.wxs", "exports.g = 1"), ("lib/s2.wxs", "exports.h = require('../s1.wxs').g"), ("s3.wxs", "exports.i = 3")];

const SHEETS: &[&str] = &[
    ".a .b{c:1rpx}",
    "@import \"x\" layer(l) screen;@media (w:1rpx){:host{a:b}.c{d:e}}",
    ":host{a:b}@layer x{:host{c:d}}/*é*/\n.é😀{k:calc(1rpx + 2px)}",
];

fn permutations(n: usize) -> Vec<Vec<usize>> {
    fn rec(cur: &mut Vec<usize>, used: &mut Vec<bool>, n: usize, out: &mut Vec<Vec<usize>>) {
        if cur.len() == n {
            out.push(cur.clone());
            return;
        }
        for i in 0..n {
            if !used[i] {
                used[i] = true;
                cur.push(i);
                rec(cur, used, n, out);
                cur.pop();
                used[i] = false;
            }
        }
    }
    let mut out = vec![];
    rec(&mut vec![], &mut vec![false; n], n, &mut out);
    out
}

fn artefacts(g: &glass_easel_template_compiler::TmplGroup, files: &[usize]) -> Vec<(String, String)> {
    let mut out = vec![];
    out.push(("groups".to_string(), g.get_tmpl_gen_object_groups().map_err(|e| e.message).unwrap_or_else(|e| format!("ERR {}", e))));
    out.push(("wx".to_string(), g.get_wx_gen_object_groups().map_err(|e| e.message).unwrap_or_else(|e| format!("ERR {}", e))));
    out.push(("runtime".to_string(), g.get_runtime_string()));
    out.push(("globals".to_string(), g.export_globals().map_err(|e| e.message).unwrap_or_else(|e| format!("ERR {}", e))));
    out.push(("scripts".to_string(), g.export_all_scripts().map_err(|e| e.message).unwrap_or_else(|e| format!("ERR {}", e))));
    let mut fs = files.to_vec();
    fs.sort();
    for f in fs {
        let p = TEMPLATES[f].0;
        out.push((format!("gen:{}", p), g.get_tmpl_gen_object(p).map_err(|e| e.message).unwrap_or_else(|e| format!("ERR {}", e))));
        out.push((format!("stringify:{}", p), g.stringify_tmpl(p).unwrap_or_default()));
        let mut deps: Vec<String> = g.direct_dependencies(p).map(|x| x.collect()).unwrap_or_default();
        deps.sort();
        out.push((format!("deps:{}", p), deps.join(",")));
    }
    out
}

struct ChildOut {
    /// (set key, artefact) -> digests seen, with one representative text each
    digests: BTreeMap<(String, String), BTreeMap<u64, String>>,
    builds: u64,
    probe_orders: BTreeMap<String, BTreeSet<String>>,
    field_orders: BTreeSet<String>,
}

fn record(out: &mut ChildOut, key: &str, arts: Vec<(String, String)>, how: &str) {
    for (name, text) in arts {
        let h = fnv(text.as_bytes());
        let e = out.digests.entry((key.to_string(), name)).or_default();
        e.entry(h).or_insert_with(|| format!("{} => {}", how, text.chars().take(4000).collect::<String>()));
    }
}

pub fn child(thorough: bool) {
    silence_panics();
    let nt = if thorough { 6 } else { 5 };
    let max_k = if thorough { 6 } else { 4 };
    let mut out = ChildOut { digests: Default::default(), builds: 0, probe_orders: Default::default(), field_orders: Default::default() };
    // the very first map of the process: its order identifies the hash-key answer of this process
    let first_probe = {
        let mut m: HashMap<String, ()> = HashMap::new();
        for k in ["a", "b", "c", "d", "e", "f", "g", "h"] {
            m.insert(k.to_string(), ());
        }
        m.keys().cloned().collect::<Vec<_>>().join("")
    };
    for mask in 1u32..(1 << nt) {
        let files: Vec<usize> = (0..nt).filter(|i| mask & (1 << i) != 0).collect();
        if files.len() > max_k {
            continue;
        }
        let tkey = files.iter().map(|f| TEMPLATES[*f].0).collect::<Vec<_>>().join("+");
        let perms = permutations(files.len());
        // script sets: none, the first only, all three
        for script_set in [&[][..], &[0usize][..], &[0usize, 1, 2][..]] {
            let key = format!("{}|scripts:{}", tkey, script_set.iter().map(|s| SCRIPTS[*s].0).collect::<Vec<_>>().join("+"));
            let script_perms: Vec<Vec<usize>> = permutations(script_set.len()).into_iter().map(|p| p.into_iter().map(|i| script_set[i]).collect()).collect();
            for (pi, perm) in perms.iter().enumerate() {
                // all script orders for the first template order, the identity script order otherwise, plus a rotating one
                let sps: Vec<&Vec<usize>> = if pi == 0 { script_perms.iter().collect() } else { vec![&script_perms[0], &script_perms[pi % script_perms.len()]] };
                for sp in sps {
                    // scripts before / after / between the templates
                    for placement in 0..3usize {
                        if script_set.is_empty() && placement > 0 {
                            continue;
                        }
                        let mut g = glass_easel_template_compiler::TmplGroup::new();
                        let mut probe: HashMap<String, ()> = HashMap::new();
                        let add_scripts = |g: &mut glass_easel_template_compiler::TmplGroup| {
                            for s in sp.iter() {
                                g.add_script(SCRIPTS[*s].0, SCRIPTS[*s].1);
                            }
                        };
                        if placement == 0 {
                            add_scripts(&mut g);
                        }
                        for (n, i) in perm.iter().enumerate() {
                            if placement == 2 && n == 1 {
                                add_scripts(&mut g);
                            }
                            let f = files[*i];
                            g.add_tmpl(TEMPLATES[f].0, TEMPLATES[f].1);
                            probe.insert(TEMPLATES[f].0.to_string(), ());
                        }
                        if placement == 1 || (placement == 2 && perm.len() < 2) {
                            add_scripts(&mut g);
                        }
                        out.builds += 1;
                        out.probe_orders.entry(tkey.clone()).or_default().insert(probe.keys().cloned().collect::<Vec<_>>().join(","));
                        record(&mut out, &key, artefacts(&g, &files), &format!("order {:?} scripts {:?} placement {}", perm, sp, placement));
                    }
                }
            }
            // histories that end with the same files: every file first added under its path with the text of another model template
            // (every other template in turn, also ones outside the set) and then added again with its own text; a script added and
            // removed again. The group is a function of the files it holds.
            if files.len() <= 2 {
                for other in 0..nt {
                    let mut g = glass_easel_template_compiler::TmplGroup::new();
                    for s in script_set.iter() {
                        g.add_script(SCRIPTS[*s].0, SCRIPTS[*s].1);
                    }
                    for f in files.iter() {
                        if *f != other {
                            g.add_tmpl(TEMPLATES[*f].0, TEMPLATES[other].1);
                        }
                    }
                    for f in files.iter() {
                        g.add_tmpl(TEMPLATES[*f].0, TEMPLATES[*f].1);
                    }
                    out.builds += 1;
                    record(&mut out, &key, artefacts(&g, &files), &format!("every file first added with the text of template {:?}, then with its own", TEMPLATES[other].0));
                }
                if script_set.len() < SCRIPTS.len() {
                    let mut g = glass_easel_template_compiler::TmplGroup::new();
                    for s in script_set.iter() {
                        g.add_script(SCRIPTS[*s].0, SCRIPTS[*s].1);
                    }
                    let extra = (0..SCRIPTS.len()).find(|i| !script_set.contains(i)).unwrap();
                    g.add_script(SCRIPTS[extra].0, SCRIPTS[extra].1);
                    for f in files.iter() {
                        g.add_tmpl(TEMPLATES[*f].0, TEMPLATES[*f].1);
                    }
                    g.remove_script(SCRIPTS[extra].0);
                    out.builds += 1;
                    record(&mut out, &key, artefacts(&g, &files), &format!("script {:?} added and removed again", SCRIPTS[extra].0));
                }
            }
            // import_group: every way to split the templates over two groups (a side may be empty),
            // scripts all in the first / all in the second / split, both directions
            for part in 0u32..(1 << files.len()) {
                for sdist in 0..3usize {
                    if script_set.is_empty() && sdist > 0 {
                        continue;
                    }
                    for dir in 0..2 {
                        let mut g1 = glass_easel_template_compiler::TmplGroup::new();
                        let mut g2 = glass_easel_template_compiler::TmplGroup::new();
                        for (i, s) in script_set.iter().enumerate() {
                            let into_first = match sdist {
                                0 => true,
                                1 => false,
                                _ => i % 2 == 0,
                            };
                            if into_first { g1.add_script(SCRIPTS[*s].0, SCRIPTS[*s].1) } else { g2.add_script(SCRIPTS[*s].0, SCRIPTS[*s].1) }
                        }
                        for (i, f) in files.iter().enumerate() {
                            let g = if part & (1 << i) != 0 { &mut g1 } else { &mut g2 };
                            g.add_tmpl(TEMPLATES[*f].0, TEMPLATES[*f].1);
                        }
                        let merged = if dir == 0 {
                            g1.import_group(&g2);
                            g1
                        } else {
                            g2.import_group(&g1);
                            g2
                        };
                        out.builds += 1;
                        record(&mut out, &key, artefacts(&merged, &files), &format!("import_group: templates split {:b}, scripts distribution {}, direction {}", part, sdist, dir));
                    }
                }
            }
        }
    }
    // paths that are different strings but one path after normalisation (`a`, `./a`, `lib/../a`; `s1.wxs`, `./s1.wxs`): the Rust API
    // keeps paths as given, so these are different files; an order of emission that compares anything coarser than the stored string
    // would leave their relative order to the hash map. Every insertion order of the four templates x both script orders.
    {
        let alias: [(&str, &str); 4] = [("a", TEMPLATES[0].1), ("./a", "<x>{{p}}{{q}}</x>"), ("lib/../a", "<y>{{q}}</y><include src=\"b\"/>"), ("b", TEMPLATES[1].1)];
        let alias_scripts: [(&str, &str); 2] = [("s1.wxs", "exports.g = 1"), ("./s1.wxs", "exports.g = 2")];
        for perm in permutations(4) {
            for so in 0..2usize {
                let mut g = glass_easel_template_compiler::TmplGroup::new();
                if so == 0 {
                    g.add_script(alias_scripts[0].0, alias_scripts[0].1);
                    g.add_script(alias_scripts[1].0, alias_scripts[1].1);
                }
                for i in perm.iter() {
                    g.add_tmpl(alias[*i].0, alias[*i].1);
                }
                if so == 1 {
                    g.add_script(alias_scripts[1].0, alias_scripts[1].1);
                    g.add_script(alias_scripts[0].0, alias_scripts[0].1);
                }
                let mut arts = vec![];
                arts.push(("groups".to_string(), g.get_tmpl_gen_object_groups().map_err(|e| e.message).unwrap_or_else(|e| format!("ERR {}", e))));
                arts.push(("wx".to_string(), g.get_wx_gen_object_groups().map_err(|e| e.message).unwrap_or_else(|e| format!("ERR {}", e))));
                arts.push(("globals".to_string(), g.export_globals().map_err(|e| e.message).unwrap_or_else(|e| format!("ERR {}", e))));
                arts.push(("scripts".to_string(), g.export_all_scripts().map_err(|e| e.message).unwrap_or_else(|e| format!("ERR {}", e))));
                for (p, _) in alias.iter() {
                    arts.push((format!("gen:{}", p), g.get_tmpl_gen_object(p).map_err(|e| e.message).unwrap_or_else(|e| format!("ERR {}", e))));
                }
                out.builds += 1;
                record(&mut out, "alias-paths:a+./a+lib/../a+b|scripts:s1.wxs+./s1.wxs", arts, &format!("order {:?} scripts order {}", perm, so));
            }
        }
    }
    // a probe for the binding-map field map: same number of keys as template "a" uses at top level
    for _ in 0..64 {
        let mut m: HashMap<String, ()> = HashMap::new();
        for k in ["p", "q", "r", "s"] {
            m.insert(k.to_string(), ());
        }
        out.field_orders.insert(m.keys().cloned().collect::<Vec<_>>().join(","));
    }
    // stylesheets
    let mut css_digests = BTreeMap::new();
    for (i, s) in SHEETS.iter().enumerate() {
        let o = Opts { class_prefix: Some("p".into()), import_sign: Some("I".into()), convert_host: true, host_is: Some("h".into()), ..Default::default() };
        for _ in 0..4 {
            if let Ok(run) = css::transform("s.wxss", s, &o, 0, true) {
                let text = format!("{}\n{}\n{:?}\n{:?}", run.normal, run.low, run.map_normal_rt.iter().map(|e| (e.dst_col, e.src_line, e.src_col, e.name.clone())).collect::<Vec<_>>(), run.map_low_rt.iter().map(|e| (e.dst_col, e.src_line, e.src_col)).collect::<Vec<_>>());
                css_digests.entry(i).or_insert_with(BTreeMap::new).entry(fnv(text.as_bytes())).or_insert(text);
            }
        }
    }
    let digests: Vec<Value> = out.digests.iter().map(|((k, a), m)| json!({"set": k, "artefact": a, "digests": m.iter().map(|(h, t)| json!([h.to_string(), t])).collect::<Vec<_>>()})).collect();
    let css: Vec<Value> = css_digests.iter().map(|(i, m)| json!({"sheet": i, "digests": m.iter().map(|(h, t)| json!([h.to_string(), t])).collect::<Vec<_>>()})).collect();
    let v = json!({
        "builds": out.builds,
        "digests": digests,
        "css": css,
        "probe_orders": out.probe_orders.iter().map(|(k, s)| (k.to_string(), json!(s))).collect::<Map<String, Value>>(),
        "field_orders": out.field_orders,
        "first_probe": first_probe,
    });
    println!("{}", v);
}

pub fn explore(thorough: bool, result_path: &str) {
    let shim = "/verif/.build/getrandom_shim.so";
    let exe = std::env::current_exe().expect("exe");
    let nseeds: u64 = if thorough { 768 } else { 64 };
    let results: std::sync::Mutex<Vec<(u64, Option<Value>)>> = std::sync::Mutex::new(vec![]);
    let tier = if thorough { "thorough" } else { "quick" };
    // seed 1 is run twice: the two answers must be identical (the harness owns the hash keys)
    let mut jobs: Vec<u64> = (1..=nseeds).collect();
    jobs.push(1);
    let _ = par_run(jobs.len() as u64, threads(), |i, _| {
        let seed = jobs[i as usize];
        let o = std::process::Command::new(&exe).args(["c20-child", "--tier", tier]).env("LD_PRELOAD", shim).env("VERIF_HASH_SEED", seed.to_string()).output();
        let v = o.ok().filter(|o| o.status.success()).and_then(|o| serde_json::from_slice::<Value>(&o.stdout).ok());
        results.lock().unwrap().push((i, v.map(|v| json!({"seed": seed, "out": v}))));
    });
    let mut results = results.into_inner().unwrap();
    results.sort_by_key(|x| x.0);
    let mut rep = Report::new();
    let mut all: BTreeMap<(String, String), BTreeMap<String, (String, u64)>> = BTreeMap::new();
    let mut css_all: BTreeMap<u64, BTreeMap<String, String>> = BTreeMap::new();
    let mut probe: BTreeMap<String, BTreeSet<String>> = BTreeMap::new();
    let mut field_orders: BTreeSet<String> = BTreeSet::new();
    let mut first_seed1: Option<String> = None;
    let mut per_seed_probe: BTreeSet<String> = BTreeSet::new();
    for (_, r) in &results {
        let Some(r) = r else {
            rep.machinery_errors.push("a child process failed (shim missing or crash)".into());
            continue;
        };
        let seed = r["seed"].as_u64().unwrap();
        let out = &r["out"];
        if seed == 1 {
            let s = out.to_string();
            match &first_seed1 {
                None => first_seed1 = Some(s),
                Some(f) => {
                    if *f != s {
                        rep.machinery_errors.push("two runs under the same hash seed differ: the harness does not own every source of nondeterminism".into());
                    }
                }
            }
        }
        rep.evaluations += out["builds"].as_u64().unwrap_or(0);
        rep.transitions += out["builds"].as_u64().unwrap_or(0);
        for d in out["digests"].as_array().unwrap() {
            let e = all.entry((d["set"].as_str().unwrap().to_string(), d["artefact"].as_str().unwrap().to_string())).or_default();
            for p in d["digests"].as_array().unwrap() {
                e.entry(p[0].as_str().unwrap().to_string()).or_insert((p[1].as_str().unwrap().to_string(), seed));
            }
        }
        for d in out["css"].as_array().unwrap() {
            let e = css_all.entry(d["sheet"].as_u64().unwrap()).or_default();
            for p in d["digests"].as_array().unwrap() {
                e.entry(p[0].as_str().unwrap().to_string()).or_insert(p[1].as_str().unwrap().to_string());
            }
        }
        for (k, s) in out["probe_orders"].as_object().unwrap() {
            for o in s.as_array().unwrap() {
                probe.entry(k.clone()).or_default().insert(o.as_str().unwrap().to_string());
            }
        }
        per_seed_probe.insert(out["first_probe"].to_string());
        for o in out["field_orders"].as_array().unwrap() {
            field_orders.insert(o.as_str().unwrap().to_string());
        }
    }
    if per_seed_probe.len() * 2 < results.len() && results.len() > 2 {
        rep.machinery_errors.push("all hash seeds produced the same iteration orders: the getrandom shim is not effective".into());
    }
    rep.states = all.len() as u64;
    for ((set, art), m) in &all {
        rep.outcome(&(set, art, m.len()));
        if set.split('|').next().unwrap().contains('+') {
            rep.nontrivial_case(&(set, art));
        }
        if m.len() > 1 {
            let mut it = m.values();
            let a = it.next().unwrap();
            let b = it.next().unwrap();
            let kind = art.split(':').next().unwrap().to_string();
            rep.violation(Violation {
                fingerprint: format!("C20|{}-differs", kind),
                what: format!("artefact {} of file set {{{}}} has {} different byte strings; e.g. (seed {}) {} — versus (seed {}) {}", art, set, m.len(), a.1, a.0.chars().take(300).collect::<String>(), b.1, b.0.chars().take(300).collect::<String>()),
                replay: json!({"engine": "c20", "set": set, "artefact": art, "seeds": [a.1, b.1], "tier": tier}),
            });
        }
    }
    for (i, m) in &css_all {
        if m.len() > 1 {
            rep.violation(Violation { fingerprint: "C20|stylesheet-output-differs".into(), what: format!("stylesheet {} has {} different outputs", i, m.len()), replay: json!({"engine": "c20", "sheet": i, "tier": tier}) });
        }
    }
    let fact = |n: u64| (1..=n).product::<u64>();
    // per file set: how many of the k! iteration orders of its map did the hash-key answers realise?
    let mut realised = Map::new();
    let mut by_k: BTreeMap<u64, (u64, u64, u64)> = BTreeMap::new(); // k -> (sets, min realised, sets with all orders)
    for (set, s) in &probe {
        let k = set.split('+').count() as u64;
        let e = by_k.entry(k).or_insert((0, u64::MAX, 0));
        e.0 += 1;
        e.1 = e.1.min(s.len() as u64);
        if s.len() as u64 == fact(k) {
            e.2 += 1;
        }
    }
    for (k, (sets, min, full)) in &by_k {
        realised.insert(format!("k={}", k), json!({"file_sets": sets, "orders_possible": fact(*k), "min_orders_realised_per_set": min, "sets_with_every_order_realised": full}));
    }
    for (set, s) in probe.iter().filter(|(k, _)| k.split('+').count() == 3).take(1) {
        rep.sample(json!({"file_set": set, "iteration_orders_of_its_probe_map": s}));
    }
    rep.sample(json!({"file_set": TEMPLATES.iter().map(|t| t.0).collect::<Vec<_>>(), "scripts": SCRIPTS.iter().map(|t| t.0).collect::<Vec<_>>()}));
    let mut extra = Map::new();
    extra.insert("iteration_orders_realised_by_the_hash_keys".into(), Value::Object(realised));
    extra.insert("field_map_orders_realised".into(), json!({"orders_realised": field_orders.len(), "of": 24}));
    extra.insert("hash_seeds".into(), json!(nseeds));
    let res = rep.to_result(
        "C20",
        "every non-empty subset (size <= k) of the model templates, every insertion order of its files, rotating script orders, every import_group bipartition in both directions, under every hash seed (one process each; every HashMap instance in a process takes the next key of the seeded sequence); all artefacts compared byte for byte per file set; non-trivial = file sets of at least two files; distinct = (file set, artefact)",
        json!({"templates": if thorough {6} else {5}, "max_files_per_group": if thorough {6} else {4}, "scripts": 3, "hash_seeds": nseeds, "stylesheets": SHEETS.len()}),
        true,
        &["the LD_PRELOAD getrandom shim controls std's RandomState keys (checked: equal seeds give equal runs, different seeds give different probe orders)", "a probe HashMap with the same keys measures which iteration orders the hash-key answers realise"],
        extra,
    );
    write_result(result_path, &res);
}

pub fn replay(v: &Value) -> Value {
    // re-run the two seeds that disagreed and compare the artefact of that file set
    let shim = "/verif/.build/getrandom_shim.so";
    let exe = std::env::current_exe().expect("exe");
    let tier = v["tier"].as_str().unwrap_or("quick");
    let set = v["set"].as_str().unwrap_or("");
    let art = v["artefact"].as_str().unwrap_or("");
    let mut seen: BTreeSet<String> = BTreeSet::new();
    let seeds: Vec<u64> = v["seeds"].as_array().map(|a| a.iter().filter_map(|x| x.as_u64()).collect()).unwrap_or_else(|| vec![1, 2]);
    for seed in seeds.iter().chain([1u64, 2, 3, 4, 5, 6, 7, 8].iter()) {
        let o = std::process::Command::new(&exe).args(["c20-child", "--tier", tier]).env("LD_PRELOAD", shim).env("VERIF_HASH_SEED", seed.to_string()).output().expect("child");
        let out: Value = serde_json::from_slice(&o.stdout).expect("child json");
        for d in out["digests"].as_array().unwrap() {
            if d["set"] == set && d["artefact"] == art {
                for p in d["digests"].as_array().unwrap() {
                    seen.insert(p[0].as_str().unwrap().to_string());
                }
            }
        }
    }
    json!({"deterministic": true, "failure": if seen.len() > 1 { json!(format!("{} different byte strings for {} of {{{}}}", seen.len(), art, set)) } else { Value::Null }})
}
