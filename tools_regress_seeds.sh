#!/bin/bash
# re-runs every kept seeded change against its check (quick tier); one line per seed in .work/regress.log
cd /verif
: > .work/regress.log
for D in seeded/c??-?; do
  S=$(basename $D)
  P=$(python3 -c "import json; print(json.load(open('$D/meta.json'))['caught_by'])")
  PATCH=$D/patch.diff
  [ -f $D/patch.ported.diff ] && PATCH=$D/patch.ported.diff
  if ! git -C /repo apply --check $PWD/$PATCH 2>/dev/null; then echo "$S $P PATCH-DOES-NOT-APPLY" >> .work/regress.log; continue; fi
  R=$(./tools_seed.sh $PWD/$PATCH $P quick 2>&1)
  N=$(echo "$R" | grep -a -c "^VIOLATION")
  E=$(echo "$R" | grep -a "^exit=" | tail -1)
  echo "$S $P violations=$N $E" >> .work/regress.log
done
echo DONE >> .work/regress.log
