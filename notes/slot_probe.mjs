import { createRequire } from 'node:module'
import * as D from '/verif/js/rt_real/driver.mjs'
const require = createRequire(import.meta.url)
const C = require('/verif/js/lib/common.js')
const files = [['d/m', '<c><d slot:u p="{{typeof x}}">{{u}}</d></c>'], ['comp/c', '<block wx:for="{{ps}}"><slot u="{{item}}"/></block><slot name="s" u="{{p}}"/>']]
const r = C.compileBatch([{ id: 0, files, scripts: [], want: ['groups'] }], 1)[0]
const G = D.loadBundle(r.outputs.groups.ok)
const mk = (ps) => D.create(G, 'd/m', { x: 'X' }, undefined, { using: true, slotTemplate: { content: G['comp/c'], groupList: G }, slotData: { ps, p: 'P' } })
const comp = mk(['p1', 'p2'])
console.log('create    ', D.serialize(comp.shadowRoot))
const child = comp.shadowRoot.childNodes[0]
child.setData({ ps: ['p1'] })
console.log('ps=[p1]   ', D.serialize(comp.shadowRoot))
child.setData({ ps: ['p1', 'p2', 'p3'] })
console.log('ps=[1,2,3]', D.serialize(comp.shadowRoot))
console.log('fresh     ', D.serialize(mk(['p1', 'p2', 'p3']).shadowRoot))
const c2 = mk(['p1', 'p2'])
const ch2 = c2.shadowRoot.childNodes[0]
ch2.setData({ ps: ['p1', 'p2', 'p3'] })
console.log('grow only ', D.serialize(c2.shadowRoot))
ch2.setData({ ps: [] })
console.log('then []   ', D.serialize(c2.shadowRoot))
ch2.setData({ ps: ['q'] })
console.log('then [q]  ', D.serialize(c2.shadowRoot))
console.log(D.takeWarnings())
console.log('---- traced')
{
  const c3 = mk(['p1', 'p2', 'p3'])
  const ch3 = c3.shadowRoot.childNodes[0]
  const orig = ch3.removeChildren.bind(ch3)
  ch3.removeChildren = (i, n) => { console.log('removeChildren', i, n, 'of', ch3.childNodes.length); return orig(i, n) }
  const origI = ch3.insertChildren.bind(ch3)
  ch3.insertChildren = (list, i) => { console.log('insertChildren', list.length, 'at', i); return origI(list, i) }
  ch3.setData({ ps: [] })
  console.log('after []  ', D.serialize(c3.shadowRoot))
  ch3.setData({ ps: ['a', 'b'] })
  console.log('after [a,b]', D.serialize(c3.shadowRoot))
}
console.log('---- traced 2')
{
  const c3 = mk(['p1', 'p2'])
  const ch3 = c3.shadowRoot.childNodes[0]
  const orig = ch3.removeChildren.bind(ch3)
  ch3.removeChildren = (i, n) => { console.log('removeChildren', i, n, 'of', ch3.childNodes.length); return orig(i, n) }
  const origI = ch3.insertChildren.bind(ch3)
  ch3.insertChildren = (list, i) => { console.log('insertChildren', list.length, 'at', i); return origI(list, i) }
  ch3.setData({ ps: ['p1'] })
  console.log('after [p1]  ', D.serialize(c3.shadowRoot), ch3.childNodes.length)
  ch3.setData({ ps: ['p1', 'p2', 'p3'] })
  console.log('after [1,2,3]', D.serialize(c3.shadowRoot), ch3.childNodes.length)
}
console.log('---- traced 3')
{
  const c3 = mk(['p1', 'p2'])
  const ch3 = c3.shadowRoot.childNodes[0]
  const sr = ch3.getShadowRoot()
  const oi = sr._$insertDynamicSlotHandler, orm = sr._$removeDynamicSlotHandler
  sr._$insertDynamicSlotHandler = (slots) => { console.log('INSERT handler', slots.length); return oi(slots) }
  sr._$removeDynamicSlotHandler = (slots) => { console.log('REMOVE handler', slots.length, slots.map((s) => s.slotNodes && s.slotNodes.length)); return orm(slots) }
  const oa = sr._$applySlotsInsertion.bind(sr)
  sr._$applySlotsInsertion = (a, b, move) => { console.log('applySlotsInsertion move=', move); return oa(a, b, move) }
  const ora = sr._$applySlotsRemoval.bind(sr)
  sr._$applySlotsRemoval = (a, b, move) => { console.log('applySlotsRemoval move=', move); return ora(a, b, move) }
  ch3.setData({ ps: ['p1'] })
  console.log('after [p1]  ', D.serialize(c3.shadowRoot), ch3.childNodes.length)
  ch3.setData({ ps: ['p1', 'p2', 'p3'] })
  console.log('after [1,2,3]', D.serialize(c3.shadowRoot), ch3.childNodes.length)
  console.log('child shadow:', D.serialize(sr))
}
