#!/bin/bash
# usage: tools_lanes.sh <lanes> <jobfile>    jobfile: one "<id> <patch> <Cxx> [tier]" per line
# Evaluates seeded changes in parallel without touching /repo or /verif: every lane gets copies of both (the copy of /verif with
# its build directory) bound over /repo and /verif in a private mount namespace, applies the patch there, runs the check, undoes it.
# Results: $L/out/<id>.log (filtered output of tools_seed.sh) and one summary line per job on stdout.
# The lanes and their build output are removed at the end.
set -u
N=$1; JOBS=$2; L=${LANES_DIR:-/tmp/lanes}
rm -rf $L; mkdir -p $L/out
for k in $(seq 1 $N); do
  mkdir -p $L/$k
  rsync -a --exclude target /repo/ $L/$k/repo/
  rsync -a --exclude .work --exclude replays /verif/ $L/$k/verif/
  mkdir -p $L/$k/verif/.work
  awk -v n=$N -v k=$k 'NF && (NR-1)%n==k-1' $JOBS > $L/$k/jobs
done
for k in $(seq 1 $N); do
  unshare -m bash -c "mount --bind $L/$k/repo /repo && mount --bind $L/$k/verif /verif && cd /verif && \
    while read ID PATCH PROP TIER; do \
      ./tools_seed.sh \$PATCH \$PROP \${TIER:-quick} > $L/out/\$ID.log 2>&1; \
      echo \"\$ID \$PROP violations=\$(grep -a -c '^VIOLATION' $L/out/\$ID.log) \$(grep -a '^exit=' $L/out/\$ID.log | tail -1) \$(grep -a -m1 -E '^MACHINERY|patch does not apply|not clean' $L/out/\$ID.log | cut -c1-100)\"; \
    done < $L/$k/jobs" &
done
wait
for k in $(seq 1 $N); do rm -rf $L/$k; done
