#!/bin/bash
# usage: tools_lanes.sh <lanes> <jobfile>    jobfile: one "<id> <patch> <Cxx> [tier]" per line
# Evaluates seeded changes in parallel without touching /repo or /verif: every lane gets copies of both (the copy of /verif with
# its build directory) bound over /repo and /verif in a private mount namespace, applies the patch there, runs the check, undoes it.
# Results: /tmp/lanes/out/<id>.log (filtered output of tools_seed.sh) and one summary line per job on stdout.
# The lanes and their build output are removed at the end.
set -u
N=$1; JOBS=$2
rm -rf /tmp/lanes; mkdir -p /tmp/lanes/out
for k in $(seq 1 $N); do
  mkdir -p /tmp/lanes/$k
  rsync -a --exclude target /repo/ /tmp/lanes/$k/repo/
  rsync -a --exclude .work --exclude replays /verif/ /tmp/lanes/$k/verif/
  mkdir -p /tmp/lanes/$k/verif/.work
  awk -v n=$N -v k=$k 'NF && (NR-1)%n==k-1' $JOBS > /tmp/lanes/$k/jobs
done
for k in $(seq 1 $N); do
  unshare -m bash -c "mount --bind /tmp/lanes/$k/repo /repo && mount --bind /tmp/lanes/$k/verif /verif && cd /verif && \
    while read ID PATCH PROP TIER; do \
      ./tools_seed.sh \$PATCH \$PROP \${TIER:-quick} > /tmp/lanes/out/\$ID.log 2>&1; \
      echo \"\$ID \$PROP violations=\$(grep -a -c '^VIOLATION' /tmp/lanes/out/\$ID.log) \$(grep -a '^exit=' /tmp/lanes/out/\$ID.log | tail -1) \$(grep -a -m1 -E '^MACHINERY|patch does not apply|not clean' /tmp/lanes/out/\$ID.log | cut -c1-100)\"; \
    done < /tmp/lanes/$k/jobs" &
done
wait
for k in $(seq 1 $N); do rm -rf /tmp/lanes/$k; done
