'use strict'
// C11 — emitted l-value paths address exactly the value the expression reads.
// Access-chain expressions (and the non-assignable forms) in every position that can receive a
// path: model:, wx:for (list and item paths), events, change:, legacy bind*. Oracle: the get-put law
// on the EMITTED path (write a sentinel there, re-run creation, the same site must deliver the
// sentinel), script paths must name the referenced module and member chain, non-assignable
// expressions must not receive a path, a conditional yields the path of the branch taken.

const C = require('./lib/common')
const RT = require('./lib/rt_record')
const T = require('./lib/tmplmodel')
const M = require('./lib/exprmodel')
const { text, el, block, wxs, A, E } = T
const id = M.id

const SENT = { __sentinel: true }

/** an object in which every step of the chain alphabet is valid, `depth` levels deep; leaves are distinct strings */
function tree(depth, label) {
  if (depth === 0) return label
  const o = {}
  for (const key of ['b', '0', 'x', 'y', 'c', 'w', 'e']) o[key] = tree(depth - 1, label + '.' + key)
  return o
}
const item = (n) => Object.assign(tree(2, 'i' + n), { v: 'v' + n, h: 'h' + n, o: { p: 'p' + n } })
const DATA = [
  { a: tree(3, 'a'), k: 'b', b: { c: 'x' }, d: tree(3, 'd'), c: 1, z: 'Z', list: [item(0), item(1)], outer: [{ inner: [{ w: 'w00' }, { w: 'w01' }] }, { inner: [{ w: 'w10' }] }], f: function f() { return [{ v: 'fv' }] } },
  { a: tree(3, 'A'), k: 'y', b: { c: 'b' }, d: tree(3, 'D'), c: 0, z: 'Z2', list: [item(7)], outer: [{ inner: [] }, { inner: [{ w: 'w10' }, { w: 'w11' }] }], f: function f() { return [] } },
]
const MISSING = { c: 0, k: 'b', list: [], outer: [] } // everything else undefined

/** expressions at top level: [name, expr, assignable: 'data' | 'script' | false] */
const STEPS = [
  ['.b', (e) => M.mem(e, 'b')],
  ['[0]', (e) => M.idx(e, M.lit('0'))],
  ["['x']", (e) => M.idx(e, M.lit("'x'"))],
  ['[k]', (e) => M.idx(e, id('k'))],
  ['[b.c]', (e) => M.idx(e, M.mem(id('b'), 'c'))],
]
/** every access chain of 1..maxLen steps from `root` */
function chains(rootName, maxLen) {
  const out = []
  const rec = (name, e, len) => {
    if (len > 0) out.push([name, e, 'data'])
    if (len === maxLen) return
    for (const [sn, sf] of STEPS) rec(name + sn, sf(e), len + 1)
  }
  rec(rootName, id(rootName), 0)
  return out
}

/** conditionals nested in conditionals, bare and under a member / index suffix */
function nestedConditionals() {
  const a = id('a'); const d = id('d'); const c = id('c'); const z = id('z'); const k = id('k')
  const leaves = [['a', a], ['d.e', M.mem(d, 'e')], ['a.b', M.mem(a, 'b')]]
  const out = []
  for (const [n1, e1] of leaves) for (const [n2, e2] of leaves) for (const [n3, e3] of leaves.slice(0, 2)) {
    const inner = M.cond(z, e1, e2)
    const forms = [
      [`c ? (z ? ${n1} : ${n2}) : ${n3}`, M.cond(c, M.grp(inner), e3)],
      [`c ? ${n3} : z ? ${n1} : ${n2}`, M.cond(c, e3, inner)],
    ]
    for (const [fn, fe] of forms) {
      out.push([fn, fe, 'data'])
      out.push([`(${fn}).x`, M.mem(M.grp(fe), 'x'), 'data-or-none'])
      out.push([`(${fn})[k]`, M.idx(M.grp(fe), k), 'data-or-none'])
    }
  }
  return out
}

function topExprs(thorough) {
  return [...topExprsFixed(), ...nestedConditionals(), ...chains('a', thorough ? 3 : 2).map(([n, e, k]) => ['chain:' + n, e, k]),
    // a chain inside the taken and the untaken branch of a conditional, and as the operand of a non-assignable form
    ...chains('a', thorough ? 2 : 1).flatMap(([n, e]) => [
      [`c ? ${n} : d.e`, M.cond(id('c'), e, M.mem(id('d'), 'e')), 'data'],
      [`c ? d.e : ${n}`, M.cond(id('c'), M.mem(id('d'), 'e'), e), 'data'],
      [`${n} + 1`, M.bin('+', e, M.lit('1')), false],
      [`!${n}`, M.un('!', e), false],
      [`f(${n})`, M.call(id('f'), [e]), false],
    ])]
}
function topExprsFixed() {
  const a = id('a'); const k = id('k'); const b = id('b'); const d = id('d'); const c = id('c'); const z = id('z')
  return [
    ['a', a, 'data'],
    ['a.b', M.mem(a, 'b'), 'data'],
    ['a.b.c', M.mem(M.mem(a, 'b'), 'c'), 'data'],
    ['a[0]', M.idx(a, M.lit('0')), 'data'],
    ["a['x']", M.idx(a, M.lit("'x'")), 'data'],
    ['a[k]', M.idx(a, k), 'data'],
    ['a[k].c', M.mem(M.idx(a, k), 'c'), 'data'],
    ['a[b.c]', M.idx(a, M.mem(b, 'c')), 'data'],
    ['(a.b).c', M.mem(M.grp(M.mem(a, 'b')), 'c'), 'data'],
    ['c ? a.b : d.e', M.cond(c, M.mem(a, 'b'), M.mem(d, 'e')), 'data'],
    ['c ? a.b.c : z', M.cond(c, M.mem(M.mem(a, 'b'), 'c'), z), 'data'],
    ['c ? a[k] : d', M.cond(c, M.idx(a, k), d), 'data'],
    ['(c ? a : d).x', M.mem(M.grp(M.cond(c, a, d)), 'x'), 'data-or-none'],
    ['c ? a.b : 1', M.cond(c, M.mem(a, 'b'), M.lit('1')), 'cond-mixed'],
    ['c ? z + 1 : a.b', M.cond(c, M.bin('+', z, M.lit('1')), M.mem(a, 'b')), 'cond-mixed-rev'],
    ['a.b + 1', M.bin('+', M.mem(a, 'b'), M.lit('1')), false],
    ["'s'", M.lit("'s'"), false],
    ['1', M.lit('1'), false],
    ['!z', M.un('!', z), false],
    ['-z', M.un('-', z), false],
    ['z === 1', M.bin('===', z, M.lit('1')), false],
    ['z || a', M.bin('||', z, a), false],
    ['f()', M.call(id('f'), []), false],
    ['f().v', M.mem(M.call(id('f'), []), 'v'), false],
    ['[a][0]', M.idx(M.arr([a]), M.lit('0')), 'data-or-none'],
    ['({p: a}).p', M.mem(M.obj([{ key: 'p', value: a }]), 'p'), 'data-or-none'],
    ['m.f', M.mem(id('m'), 'f'), 'script'],
    ['m.o.g', M.mem(M.mem(id('m'), 'o'), 'g'), 'script'],
    ['g.h', M.mem(id('g'), 'h'), 'script-global'],
    ['c ? m.f : g.h', M.cond(c, M.mem(id('m'), 'f'), M.mem(id('g'), 'h')), 'script'],
    ['c ? m.f : a.b', M.cond(c, M.mem(id('m'), 'f'), M.mem(a, 'b')), 'script-or-data'],
    ['m', id('m'), 'script-or-none'],
  ]
}
function itemExprs(thorough) {
  const item = id('item'); const k = id('k')
  return [
    ...chains('item', thorough ? 2 : 1).map(([n, e, kk]) => ['chain:' + n, e, kk]),
    ['item', item, 'data'],
    ['item.v', M.mem(item, 'v'), 'data'],
    ['item.o.p', M.mem(M.mem(item, 'o'), 'p'), 'data'],
    ["item['v']", M.idx(item, M.lit("'v'")), 'data'],
    ['index', id('index'), false],
    ['item.v + 1', M.bin('+', M.mem(item, 'v'), M.lit('1')), false],
    ['c ? item.v : z', M.cond(id('c'), M.mem(item, 'v'), id('z')), 'data-cond'],
    // a conditional under a member suffix, its condition independent of the one a conditional list uses (the item path is
    // null at run time when the list branch taken has no path)
    ['(z ? item : a).v', M.mem(M.grp(M.cond(id('z'), item, id('a'))), 'v'), 'data-or-none'],
    ['(z ? a : item)[k]', M.idx(M.grp(M.cond(id('z'), id('a'), item)), k), 'data-or-none'],
    ['z ? item : a', M.cond(id('z'), item, id('a')), 'data-cond'],
  ]
}

const MOD = wxs('m', 'exports.f = function mf(){}; exports.o = { g: function mog(){} }; exports.presets = [{ v: "pv", h: "ph", o: { p: "pp" } }]')
const GLOB = wxs('g', undefined, '/s/k')
const SCRIPTS = { 's/k': 'exports.h = function gh(){}' }

/** positions: (expr) -> element carrying it; find: (element record) -> {value, modelPath, path, nargs} */
const last = (arr, pred) => { for (let i = arr.length - 1; i >= 0; i--) if (pred(arr[i])) return arr[i]; return undefined }
const POSITIONS = [
  ['model', (e) => el('v', [A.model('val', E(e))]), (n) => { const a = last(n.attrs, (x) => x[0] === 'attr' && x[1] === 'val'); return a && { value: a[2], modelPath: a[3].modelPath, general: a[3].path } }, 'model'],
  ['event', (e) => el('v', [A.event('bind', 'tap', E(e))]), (n) => { const a = last(n.attrs, (x) => x[0] === 'event'); return a && { value: a[2], general: a[3].path } }, 'general'],
  ['capture-catch-event', (e) => el('v', [A.event('capture-catch', 'tap', E(e))]), (n) => { const a = last(n.attrs, (x) => x[0] === 'event'); return a && { value: a[2], general: a[3].path } }, 'general'],
  ['change', (e) => el('v', [A.change('prop', E(e))]), (n) => { const a = last(n.attrs, (x) => x[0] === 'change'); return a && { value: a[2], general: a[3].path } }, 'general'],
  ['legacy-bind', (e) => el('v', [A.legacyEvent('bindtap', E(e))]), (n) => { const a = last(n.attrs, (x) => x[0] === 'attr' && x[1] === 'bindtap'); return a && { value: a[2], modelPath: a[3].modelPath, general: a[3].path } }, 'general'],
  ['plain-attribute', (e) => el('v', [A.plain('p', E(e))]), (n) => { const a = last(n.attrs, (x) => x[0] === 'attr' && x[1] === 'p'); return a && { value: a[2], modelPath: a[3].modelPath, general: a[3].path } }, 'none'],
]

/** list wrappers for the item expressions: (body) -> nodes, with the data path of the list (or null) */
const LISTS = [
  ['for-data-path', (b) => [el('f', [], b, { wxFor: { list: E(id('list')) } })], true],
  ['for-keyed', (b) => [el('f', [], b, { wxFor: { list: E(id('list')), key: 'v' } })], true],
  ['for-member-path', (b) => [block(b, { wxFor: { list: E(M.mem(M.idx(id('outer'), M.lit('0')), 'inner')), item: 'item' } })], true],
  ['for-literal-list', (b) => [el('f', [], b, { wxFor: { list: E(M.arr([M.idx(id('list'), M.lit('0'))])) } })], false],
  ['for-call-list', (b) => [el('f', [], b, { wxFor: { list: E(M.call(id('f'), [])) } })], false],
  ['for-cond-path', (b) => [el('f', [], b, { wxFor: { list: E(M.cond(id('c'), id('list'), M.mem(M.idx(id('outer'), M.lit('1')), 'inner'))) } })], true],
  ['for-cond-data-or-script', (b) => [el('f', [], b, { wxFor: { list: E(M.cond(id('c'), id('list'), M.mem(id('m'), 'presets'))) } })], 'mixed'],
  ['for-script-list', (b) => [el('f', [], b, { wxFor: { list: E(M.mem(id('m'), 'presets')) } })], false],
  ['for-cond-path-or-literal', (b) => [el('f', [], b, { wxFor: { list: E(M.cond(id('c'), id('list'), M.arr([M.idx(id('list'), M.lit('0'))]))) } })], 'mixed'],
  ['for-cond-literal-or-path', (b) => [el('f', [], b, { wxFor: { list: E(M.cond(id('c'), M.call(id('f'), []), id('list'))) } })], 'mixed'],
  ['for-nested', (b) => [el('o', [], [el('f', [], b, { wxFor: { list: E(M.mem(id('it'), 'inner')) } })], { wxFor: { list: E(id('outer')), item: 'it', index: 'oi' } })], true],
]

function cases(thorough) {
  const out = []
  for (const [pn, pf, find, mode] of POSITIONS) {
    for (const [en, e, kind] of topExprs(thorough)) out.push({ name: `${pn}|${en}`, main: [MOD, GLOB, pf(e)], find, mode, kind, expr: e, inFor: null })
    for (const [ln, lf, listIsPath] of LISTS) for (const [en, e, kind] of itemExprs(thorough)) {
      out.push({ name: `${pn}|${ln}|${en}`, main: [MOD, GLOB, ...lf([pf(e)])], find, mode, kind, expr: e, inFor: ln, listIsPath })
    }
  }
  // the list path handed to the for-loop itself
  for (const [en, e, kind] of topExprs(thorough)) out.push({ name: `wx:for-list|${en}`, main: [MOD, GLOB, el('f', [], [text(E(id('item')))], { wxFor: { list: E(e) } })], mode: 'for-list', kind, expr: e })
  return out
}

function setPath(data, path, value) {
  const clone = (v) => (typeof v === 'function' || v === null || typeof v !== 'object' ? v : Array.isArray(v) ? v.map(clone) : Object.fromEntries(Object.keys(v).map((k) => [k, clone(v[k])])))
  const d = clone(data)
  if (path.length === 0) return value
  let cur = d
  for (let i = 0; i < path.length - 1; i++) {
    if (cur[path[i]] === null || typeof cur[path[i]] !== 'object') cur[path[i]] = {}
    cur = cur[path[i]]
  }
  cur[path[path.length - 1]] = value
  return d
}

function collectSites(nodes, find, out = []) {
  for (const n of nodes) {
    if (n.t === 'el' && n.tag === 'v') out.push(find(n))
    if (n.children) collectSites(n.children, find, out)
  }
  return out
}
function collectFors(nodes, out = []) {
  for (const n of nodes) {
    if (n.t === 'for') out.push(n)
    if (n.children) collectFors(n.children, out)
  }
  return out
}

function checkCase(cs, Gs, data, rep, src, envName) {
  const viol = (kind, what) => rep.violation(`C11|${kind}|${cs.name.replace(/\|.*\|/, '|…|')}`, `${what} — template ${JSON.stringify(src)} (${cs.name}), data ${envName}`, { engine: 'c11', case: cs.name, env: envName, kind })
  let nodes, r0
  try { r0 = RT.render(Gs, 'm', data); nodes = r0.nodes } catch (e) { viol('creation-throws', String(e)); return }
  rep.evaluations += 1
  if (cs.mode === 'for-list') {
    const f = collectFors(nodes)[0]
    if (!f) { viol('no-for-node', 'no wx:for was recorded'); return }
    const lp = f.listPath
    if (lp === null || lp === undefined) {
      // no path: fine for non-assignable lists; for a pure data access chain the runtime merely loses item paths (declining is allowed)
      return
    }
    if (cs.kind === false) { viol('path-on-non-assignable', `wx:for over a non-assignable expression received the list path ${JSON.stringify(lp)}`); return }
    if (lp[0] === 0) {
      const p = lp.slice(1)
      const d2 = setPath(data, p, [SENT])
      let n2
      try { n2 = RT.render(Gs, 'm', d2).nodes } catch (e) { viol('get-put-rerun-throws', String(e)); return }
      const f2 = collectFors(n2)[0]
      const ok = f2 && f2.items.length === 1 && f2.items[0].item === SENT
      if (!ok) viol('get-put-fails:list-path', `writing a sentinel list at the emitted list path ${JSON.stringify(p)} is not what the loop iterates`)
      // item paths extend the list path by the index
      f.items.forEach((it) => { if (it.itemPath && JSON.stringify(it.itemPath) !== JSON.stringify([...lp, it.index])) viol('item-path-is-not-list-path-plus-index', JSON.stringify(it.itemPath)) })
    } else if (lp[0] === 1 || lp[0] === 2) {
      if (!String(cs.kind).startsWith('script')) viol('script-path-on-data-expression', JSON.stringify(lp))
    }
    return
  }
  const sites = collectSites(nodes, cs.find).filter(Boolean)
  sites.forEach((site, si) => {
    rep.evaluations += 1
    const mp = site.modelPath
    const gp = site.general
    // 1. paths only where the position takes them and the expression is assignable
    if (cs.mode !== 'model' && cs.mode !== 'general' && (mp || gp)) { viol('path-on-plain-attribute', `a plain attribute received ${JSON.stringify(mp || gp)}`); return }
    if (cs.kind === false && (mp || gp)) { viol('path-on-non-assignable', `received ${JSON.stringify(mp || gp)} for a non-assignable expression`); return }
    if (cs.inFor && cs.listIsPath === false && mp && cs.kind === 'data') { viol('path-on-item-of-non-path-list', `received ${JSON.stringify(mp)} for an item of a list that is not a data path`); return }
    // 2. model paths: get-put on the emitted path
    if (mp) {
      if (!Array.isArray(mp)) { viol('model-path-is-not-an-array', JSON.stringify(mp)); return }
      const d2 = setPath(data, mp, SENT)
      let n2
      try { n2 = RT.render(Gs, 'm', d2).nodes } catch (e) { viol('get-put-rerun-throws', String(e)); return }
      const s2 = collectSites(n2, cs.find).filter(Boolean)[si]
      if (!s2 || s2.value !== SENT) viol('get-put-fails', `the emitted model path ${JSON.stringify(mp)} does not address the value read: after writing a sentinel there the binding delivers ${T.showValue(s2 && s2.value)}`)
    } else if (cs.mode === 'model' && cs.kind === 'data' && !(cs.inFor && cs.listIsPath !== true)) {
      // a pure access chain into data in model: position: the path is what makes the binding two-way
      viol('model-path-missing', `model: binding on a pure access chain received no path (value ${T.showValue(site.value)})`)
    }
    // 3. general paths: script references name module and member chain; data references write through
    if (gp) {
      if (!Array.isArray(gp)) { viol('general-path-is-not-an-array', JSON.stringify(gp)); return }
      if (gp[0] === 0) {
        const d2 = setPath(data, gp.slice(1), SENT)
        let n2
        try { n2 = RT.render(Gs, 'm', d2).nodes } catch (e) { viol('get-put-rerun-throws', String(e)); return }
        const s2 = collectSites(n2, cs.find).filter(Boolean)[si]
        if (!s2 || s2.value !== SENT) viol('get-put-fails:general-data-path', JSON.stringify(gp))
      } else if (gp[0] === 2 || gp[0] === 1) {
        // [2, file path, module, ...members] / [1, script path, ...members]: following the members from the module's exports gives the value
        const exportsOf = gp[0] === 2 ? (gp[1] === 'm' && gp[2] === 'm' ? { f: 'mf', o: { g: 'mog' } } : null) : (gp[1] === 's/k' ? { h: 'gh' } : null)
        const members = gp[0] === 2 ? gp.slice(3) : gp.slice(2)
        let cur = exportsOf
        for (const mname of members) cur = cur === null || cur === undefined ? undefined : cur[mname]
        const fnName = typeof site.value === 'function' ? site.value.name : undefined
        if (exportsOf === null) viol('script-path-names-unknown-module', JSON.stringify(gp))
        else if (members.length && cur !== fnName) viol('script-path-does-not-name-the-member-read', `path ${JSON.stringify(gp)} leads to ${JSON.stringify(cur)}, the expression reads function ${JSON.stringify(fnName)}`)
      } else viol('general-path-with-unknown-prefix', JSON.stringify(gp))
    } else if (cs.mode === 'general' && (cs.kind === 'script' || cs.kind === 'script-global') && typeof site.value === 'function') {
      viol('script-path-missing', `a script member reference in ${cs.name.split('|')[0]} position received no path`)
    }
  })
  // 4. the same law for the path handed over by a binding-map update (single-field fast path): replace one field, run its
  //    updaters, the newest record of the site must carry a path that addresses the value under the NEW data
  if (cs.mode !== 'for-list' && r0.bindingMap) {
    for (const field of Object.keys(r0.bindingMap)) {
      for (const other of [...DATA, MISSING]) {
        if (other === data || JSON.stringify(other[field]) === JSON.stringify(data[field])) continue
        const nd = Object.assign({}, data, { [field]: other[field] })
        let ra
        try {
          ra = RT.render(Gs, 'm', data)
          for (const u of ra.bindingMap[field]) u(nd, () => {}, () => {})
        } catch (e) { viol('binding-map-update-throws', String(e)); continue }
        rep.evaluations += 1
        const after = collectSites(ra.nodes, cs.find).filter(Boolean)
        after.forEach((site, si) => {
          const mp = site.modelPath
          if (cs.kind === false && (mp || site.general)) { viol('binding-map:path-on-non-assignable', JSON.stringify(mp || site.general)); return }
          if (mp) {
            let n2
            try { n2 = RT.render(Gs, 'm', setPath(nd, mp, SENT)).nodes } catch (e) { viol('get-put-rerun-throws', String(e)); return }
            const s2 = collectSites(n2, cs.find).filter(Boolean)[si]
            if (!s2 || s2.value !== SENT) viol('binding-map:get-put-fails', `after the binding-map update of ${JSON.stringify(field)} the model path handed over is ${JSON.stringify(mp)}; writing a sentinel there under the new data makes the binding deliver ${T.showValue(s2 && s2.value)}`)
          } else if (cs.mode === 'model' && cs.kind === 'data') {
            const fresh = collectSites(RT.render(Gs, 'm', nd).nodes, cs.find).filter(Boolean)[si]
            if (fresh && fresh.modelPath) viol('binding-map:model-path-missing', `creation with the same data hands over ${JSON.stringify(fresh.modelPath)}, the update of ${JSON.stringify(field)} none`)
          }
          if (site.general && site.general[0] === 0) {
            const n2 = RT.render(Gs, 'm', setPath(nd, site.general.slice(1), SENT)).nodes
            const s2 = collectSites(n2, cs.find).filter(Boolean)[si]
            if (!s2 || s2.value !== SENT) viol('binding-map:get-put-fails:general-data-path', JSON.stringify(site.general))
          }
          const freshSite = collectSites(RT.render(Gs, 'm', nd).nodes, cs.find).filter(Boolean)[si]
          if (freshSite && JSON.stringify(freshSite.general || null) !== JSON.stringify(site.general || null) && typeof site.value === typeof freshSite.value) viol('binding-map:general-path-differs-from-creation', `update ${JSON.stringify(site.general)} vs creation ${JSON.stringify(freshSite.general)}`)
        })
        rep.outcome(['bm', cs.mode, cs.kind, field, after.map((s) => (s.modelPath ? 'm' : '') + (s.general ? 'g' : '')).join(',')])
      }
    }
  }
  rep.outcome([cs.mode, cs.kind, sites.length, sites.map((s) => (s.modelPath ? 'm' : '') + (s.general ? 'g' : '')).join(',')])
}

function runShard(info, thorough) {
  const rep = new C.Report()
  const all = cases(thorough)
  const mine = all.filter((_, i) => i % info.of === info.shard)
  const jobs = mine.map((cs, i) => ({ id: i, files: [['m', T.print(cs.main).text]], scripts: Object.keys(SCRIPTS).map((p) => [p, SCRIPTS[p]]), want: ['groups'] }))
  const res = C.compileBatch(jobs, 1)
  mine.forEach((cs, i) => {
    const src = jobs[i].files[0][1]
    rep.transitions += 1
    rep.states += 1
    if (res[i].panic) { rep.violation('C11|compiler-panic|' + cs.name, `the compiler panics on ${JSON.stringify(src)}`, { engine: 'c11', case: cs.name, kind: 'panic' }); return }
    const bad = (res[i].diags.m || []).filter((d) => d.level >= 3)
    if (bad.length) { rep.count('rejected-by-the-parser'); return }
    let Gs
    try { Gs = RT.loadGroups(res[i].outputs.groups.ok, false) } catch (e) { rep.violation('C11|generated-code-does-not-load|' + String(e).slice(0, 40), `${JSON.stringify(src)}: ${e}`, { engine: 'c11', case: cs.name, kind: 'load' }); return }
    DATA.forEach((d, di) => checkCase(cs, Gs, d, rep, src, 'D' + di))
    if (thorough || true) checkCase(cs, Gs, MISSING, rep, src, 'missing')
    if (cs.kind) rep.nontrivialCase(cs.name)
    if (i % 53 === 0) rep.sample({ case: cs.name, template: src })
  })
  return rep
}

function replayOne(rec) {
  const cs = cases(true).find((c) => c.name === rec.case)
  if (!cs) return { deterministic: true, failure: null, note: 'case no longer exists' }
  const src = T.print(cs.main).text
  const r = C.compileBatch([{ id: 0, files: [['m', src]], scripts: Object.keys(SCRIPTS).map((p) => [p, SCRIPTS[p]]), want: ['groups'] }], 1)[0]
  const rep = new C.Report()
  const Gs = RT.loadGroups(r.outputs.groups.ok, false)
  DATA.forEach((d, di) => checkCase(cs, Gs, d, rep, src, 'D' + di))
  checkCase(cs, Gs, MISSING, rep, src, 'missing')
  const v = [...rep.violations.values()].map((x) => x.what)
  return { deterministic: true, failure: v.length ? v : null }
}

async function main() {
  const replay = C.argAfter('--replay', null)
  if (replay) { console.log(JSON.stringify(replayOne(JSON.parse(require('fs').readFileSync(replay, 'utf8'))))); return }
  const thorough = C.argAfter('--tier', 'quick') === 'thorough'
  const info = C.shardInfo()
  if (info) {
    const rep = runShard(info, thorough)
    require('fs').writeFileSync(info.partial, JSON.stringify(rep.toPartial()))
    return
  }
  const rep = await C.runSharded(__filename, ['--tier', thorough ? 'thorough' : 'quick'])
  const res = rep.toResult('C11',
    'every access chain of up to 2 (quick) / 3 (thorough) steps over {.b, [0], [\'x\'], [k], [b.c]} from a data root (and of 1 / 2 steps from a loop item), each also inside both branches of a conditional and under non-assignable forms, plus 32 hand-listed expressions at top level (member chains, static / dynamic / nested indices, parenthesised chains, conditionals with path, non-path and mixed branches, arithmetic, literals, unary, comparison, logical, calls, members of calls and of literals, inline and external script members, conditionals over script and data references) and 7 item expressions under 7 list forms (data path, keyed, member path, literal list, call list, conditional path, nested loops), each in 6 positions (model:, bind:, capture-catch:, change:, legacy bind*, plain attribute), plus every top-level expression as the wx:for list; under two data environments with every key present and one with everything missing. non-trivial = assignable expressions; distinct = case name',
    { cases: cases(thorough).length, environments: 3, chain_length: thorough ? 3 : 2 },
    true,
    ['V8 and the recording runtime (path arguments of R.r / R.v / R.p / F and the item paths handed to loop bodies)', 'get-put is evaluated on the emitted path itself; whether an expression is a pure access chain is a syntactic property of the model tree'],
    {})
  C.writeResult(C.argAfter('--out', C.WORK + '/C11.result.json'), res)
}
main().catch((e) => { console.error(e); process.exit(3) })
