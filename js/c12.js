'use strict'
// C12 — static strings reach the runtime character for character.
// Every Unicode scalar value c (bounded per tier) x successor x embedding context; the string the
// executed code delivers must equal the model's string code point for code point.

const C = require('./lib/common')
const RT = require('./lib/rt_record')
const cp = require('child_process')

const SUCCESSORS = ['', '0', '7', '9', 'a', 'F', '"', "'", '\\', '{', '}', '&', ';', 'u', 'x', '\n']

// entity spelling for characters a context cannot carry raw
function spellMarkup(s, quote) {
  let out = ''
  for (let i = 0; i < s.length; i++) {
    const ch = s[i]
    if (ch === '&') out += '&amp;'
    else if (ch === '<') out += '&lt;'
    else if (quote && ch === quote) out += quote === '"' ? '&quot;' : '&#39;'
    else if (ch === '{' && s[i + 1] === '{') out += '&#123;'
    else out += ch
  }
  return out
}
function spellJsString(s, q) {
  let out = ''
  for (const ch of s) {
    if (ch === q || ch === '\\') out += '\\' + ch
    else out += ch
  }
  return out
}
const hex = (n, w) => n.toString(16).padStart(w, '0')
function spellEscaped(s) {
  // every UTF-16 unit as \xHH (below 0x100) or \uHHHH
  let out = ''
  for (let i = 0; i < s.length; i++) {
    const u = s.charCodeAt(i)
    out += u < 0x100 ? '\\x' + hex(u, 2) : '\\u' + hex(u, 4)
  }
  return out
}

/**
 * The contexts. Each produces markup for one element line (or part of it) and says where the
 * delivered string is found in the recorded element.
 */
function elementA(s) {
  const d = spellMarkup(s, '"')
  const q = spellMarkup(s, "'")
  return `<a v="${d}" w='${q}' class="${d}" style="${d}" id="${d}" slot="${d}" data-a="${d}" data:b="${d}" mark:m="${d}" bind:e="${d}" catch:f='${q}' generic:g="${d}" extra-attr:x="${d}" worklet:k="${d}">[${spellMarkup(s, null)}]</a>`
}
const FIND_A = {
  'attr-dq': (n) => attr(n, 'attr', 'v'),
  'attr-sq': (n) => attr(n, 'attr', 'w'),
  class: (n) => attr(n, 'class', null),
  style: (n) => attr(n, 'style', null),
  id: (n) => attr(n, 'id', null),
  slot: (n) => n.slot,
  'data-': (n) => attr(n, 'dataset', 'a'),
  'data:': (n) => attr(n, 'dataset', 'b'),
  mark: (n) => attr(n, 'mark', 'm'),
  'bind-handler': (n) => attr(n, 'event', 'e'),
  'catch-handler-sq': (n) => attr(n, 'event', 'f'),
  generic: (n) => n.generics && n.generics.g,
  'extra-attr': (n) => attr(n, 'extra-attr', 'x'),
  worklet: (n) => attr(n, 'worklet', 'k'),
  text: (n) => { const t = n.children[0]; return t && t.t === 'text' && typeof t.text === 'string' && t.text.startsWith('[') && t.text.endsWith(']') ? t.text.slice(1, -1) : (t ? t.text : undefined) },
}
function attr(n, ch, name) {
  const a = n.attrs.find((x) => x[0] === ch && x[1] === name)
  return a ? a[2] : undefined
}
function elementB(s) {
  // string literals inside expressions: raw in '…' and "…", escaped spelling, and as a mixed-text piece
  const sq = spellJsString(s, "'")
  const dq = spellJsString(s, '"')
  const parts = []
  // a literal containing `"` must sit in a '…' attribute and vice versa; entities are not decoded inside {{ }}
  parts.push(sq.includes('"') ? `v='{{ "${dq}" }}'`.replace(/^v=/, 'v=') : `v="{{ '${sq}' }}"`)
  // (the template language has no surrogate-pair escapes: astral characters cannot be spelled with \\u)
  if (!/[\ud800-\udfff]/.test(s)) parts.push(`x="{{ '${spellEscaped(s)}' }}"`)
  parts.push(dq.includes("'") ? `w="{{ '${sq}' }}"` : `w='{{ "${dq}" }}'`)
  // line continuations (backslash + CR LF / LF / CR / U+2028 / U+2029) before and after the text denote nothing
  const CONT = ['\\\r\n', '\\\n', '\\\r', '\\\u2028', '\\\u2029']
  const k = s.codePointAt(0) % CONT.length
  parts.push(sq.includes('"') ? `y='{{ "${CONT[0]}${dq}${CONT[k]}" }}'` : `y="{{ '${CONT[0]}${sq}${CONT[k]}' }}"`)
  return `<b ${parts.join(' ')}/>`
}
const FIND_B = {
  'string-literal': (n) => attr(n, 'attr', 'v'),
  'string-literal-escaped-spelling': (n) => attr(n, 'attr', 'x'),
  'string-literal-other-quote': (n) => attr(n, 'attr', 'w'),
  'string-literal-between-line-continuations': (n) => attr(n, 'attr', 'y'),
}
function elementD(s) {
  const d = spellMarkup(s, '"')
  return `<k wx:for="{{l}}" wx:key="${d}"/><template name="${d}"><n/></template><template is="${d}"/>`
}
function elementC(c) {
  // numeric character references (one character per reference, followed by nothing)
  const code = c.codePointAt(0)
  return `<c d="&#${code};" h="&#x${code.toString(16)};" H="&#x${code.toString(16).toUpperCase()};" X="&#X${code.toString(16)};">[&#${code};|&#x${code.toString(16)};]</c>`
}

function usableInLiteral(s) {
  // a string literal cannot contain a raw line break? (the parser takes any character): keep everything;
  // a literal that needs both quote kinds inside one attribute cannot be embedded
  return !(s.includes('"') && s.includes("'"))
}

function scalars(thorough, shard, of) {
  const out = []
  const push = (c) => { if (c >= 0xd800 && c <= 0xdfff) return; out.push(c) }
  if (thorough) {
    for (let c = 0; c <= 0x10ffff; c++) if (c % of === shard) push(c)
  } else {
    const set = new Set()
    for (let c = 0; c < 0x3000; c++) set.add(c)
    for (const b of [0xd7ff, 0xe000, 0xfeff, 0xfffd, 0xfffe, 0xffff, 0x10000, 0x1f600, 0x2028, 0x2029, 0xff01, 0x10ffff, 0x10fffe, 0xe0001, 0xf0000]) { set.add(b); set.add(b - 1 < 0 ? 0 : b - 1); if (b + 1 <= 0x10ffff) set.add(b + 1) }
    // first and last code point of every 256-block start up to the astral planes
    for (let c = 0x3000; c <= 0x10ffff; c += 0x1000) { set.add(c); set.add(c + 0xfff > 0x10ffff ? 0x10ffff : c + 0xfff) }
    const list = [...set].sort((a, b) => a - b)
    list.forEach((c, i) => { if (i % of === shard) push(c) })
  }
  return out
}

function runShard(info, thorough) {
  const rep = new C.Report()
  const cs = scalars(thorough, info.shard, info.of)
  const cases = []
  for (const c of cs) {
    const ch = String.fromCodePoint(c)
    // all successors for c below U+3000 and the boundary set; '' and three critical ones elsewhere (thorough)
    const succs = (!thorough || c < 0x3000) ? SUCCESSORS : ['', '7', 'a', '\\']
    for (const s of succs) cases.push({ c, s: ch + s })
  }
  // longer strings over the characters the string emitters treat specially (NUL, backslash, octal digits, quotes, braces):
  // every string of length 3 (quick) / 3 and 4 (thorough) — a rewrite of one escape must not touch its neighbours
  const CRITICAL = ['\0', '\\', '0', '7', '8', '"', "'", 'x', 'u', '{', '\n']
  let cubeIndex = 0
  const cube = (cur, len, max) => {
    if (len >= 3) { if (cubeIndex++ % info.of === info.shard) cases.push({ c: cur.codePointAt(0), s: cur, cube: true }) }
    if (len === max) return
    for (const ch of CRITICAL) cube(cur + ch, len + 1, max)
  }
  cube('', 0, thorough ? 4 : 3)
  const PER = 600
  for (let start = 0; start < cases.length; start += PER * 8) {
    const jobs = []
    const chunkCases = []
    for (let k = 0; k < 8 && start + k * PER < cases.length; k++) {
      const part = cases.slice(start + k * PER, start + (k + 1) * PER)
      let src = ''
      for (const cs2 of part) {
        const lit = usableInLiteral(cs2.s)
        cs2.hasB = lit
        cs2.hasC = cs2.s.length === String.fromCodePoint(cs2.c).length
        // one line per case: A [B] [C]; line breaks inside the case are spelled as character references in markup contexts? No:
        // the string itself may contain '\n', which would shift the line numbering, so the per-line diagnostic mapping uses a counter
        src += elementA(cs2.s) + (lit ? elementB(cs2.s) : '') + (cs2.hasC ? elementC(String.fromCodePoint(cs2.c)) : '') + elementD(cs2.s) + '<!--#-->\n'
      }
      jobs.push({ id: jobs.length, files: [['s', src]], want: ['groups'] })
      chunkCases.push(part)
    }
    const res = C.compileBatch(jobs, 1)
    res.forEach((r, j) => {
      const part = chunkCases[j]
      if (r.panic) { rep.machineryErrors.push('compiler panicked: ' + JSON.stringify(r.panic)); return }
      const diags = (r.diags.s || []).filter((d) => d.level >= 3)
      let nodes
      try {
        const G = RT.loadGroups(r.outputs.groups.ok, false)
        nodes = RT.render(G, 's', { l: [1] }).nodes
        nodes.defs = Object.keys(G.s._)
      } catch (e) {
        // one bad case poisons the file: find it by compiling the cases one by one
        rep.count('files-recompiled-case-by-case')
        for (const cs2 of part) checkAlone(cs2, rep)
        return
      }
      if (diags.length) {
        rep.count('files-with-error-diagnostics')
        for (const cs2 of part) checkAlone(cs2, rep)
        return
      }
      // walk the recorded nodes: elements a / b / c in order, separated by comments (not recorded)
      let p = 0
      for (const cs2 of part) {
        const a = nodes[p++]
        const b = cs2.hasB ? nodes[p++] : null
        const c = cs2.hasC ? nodes[p++] : null
        judge(cs2, a, b, c, rep, [nodes[p++], nodes[p++]], nodes.defs)
      }
      if (p !== nodes.length) rep.machineryErrors.push(`node count mismatch: walked ${p}, recorded ${nodes.length}`)
    })
  }
  return rep
}

function show(s) { return s === undefined ? 'undefined' : JSON.stringify(s).replace(/[\u007f-￿]/g, (c) => '\\u' + hex(c.charCodeAt(0), 4)) }

function judge(cs2, a, b, c, rep, d, defs) {
  const s = cs2.s
  const ch = String.fromCodePoint(cs2.c)
  const report = (ctx, got, want) => {
    const succ = s.slice(ch.length)
    const cls = cs2.c === 0 ? 'NUL' : cs2.c < 0x20 ? 'control' : cs2.c < 0x7f ? JSON.stringify(ch) : cs2.c <= 0xffff ? 'BMP' : 'astral'
    rep.violation(`C12|${ctx}|${cls}|succ=${JSON.stringify(succ)}`, `context ${ctx}: the template denotes ${show(want)} (U+${hex(cs2.c, 4)} followed by ${show(succ)}), the executed code delivers ${show(got)}`,
      { engine: 'c12', c: cs2.c, s, ctx })
  }
  rep.states += 1
  rep.transitions += 1
  if (!a || a.t !== 'el' || a.tag !== 'a') { rep.machineryErrors.push('unexpected node where <a> was expected: ' + JSON.stringify(a).slice(0, 200)); return }
  for (const ctx of Object.keys(FIND_A)) {
    rep.evaluations += 1
    const got = FIND_A[ctx](a)
    if (got !== s) report(ctx, got, s)
  }
  if (b) {
    for (const ctx of Object.keys(FIND_B)) {
      rep.evaluations += 1
      const got = FIND_B[ctx](b)
      if (ctx === 'string-literal-escaped-spelling' && /[\ud800-\udfff]/.test(s)) continue
      if (got !== s) report(ctx, got, s)
    }
  }
  if (c) {
    rep.evaluations += 4
    for (const [ctx, name] of [['decimal-reference', 'd'], ['hex-reference', 'h'], ['HEX-reference', 'H'], ['hex-reference-upper-case-x', 'X']]) {
      const got = attr(c, 'attr', name)
      if (got !== ch) report(ctx, got, ch)
    }
    const t = c.children[0] && c.children[0].text
    if (t !== `[${ch}|${ch}]`) report('references-in-text', t, `[${ch}|${ch}]`)
  }
  if (d) {
    rep.evaluations += 3
    const [f, t] = d
    if (!f || f.t !== 'for' || !t || t.t !== 'if') { rep.machineryErrors.push('unexpected nodes where wx:for / template-is were expected'); return }
    if (f.key !== s) report('wx:key', f.key, s)
    if (t.key !== s) report('template-is', t.key, s)
    if (!defs.includes(s)) report('template-name', defs.length < 5 ? defs.join('|') : '(not among the defined names)', s)
    else if (!(t.children[0] && t.children[0].tag === 'n')) report('template-lookup', 'not found', s)
  }
  if (cs2.c > 0x7f || cs2.c < 0x20 || '"\'\\{}&;<>'.includes(ch)) rep.nontrivialCase(s)
  rep.outcome([cs2.c < 0x80 ? cs2.c : cs2.c < 0x800 ? 'two-byte' : cs2.c < 0x10000 ? 'three-byte' : 'astral', s.length])
  if (cs2.c % 4099 === 0 && s.length === ch.length) rep.sample({ code_point: 'U+' + hex(cs2.c, 4), element: elementA(s).slice(0, 160) })
}

function checkAlone(cs2, rep) {
  const src = elementA(cs2.s) + (cs2.hasB ? elementB(cs2.s) : '') + (cs2.hasC ? elementC(String.fromCodePoint(cs2.c)) : '') + elementD(cs2.s)
  const r = C.compileBatch([{ id: 0, files: [['s', src]], want: ['groups'] }], 1)[0]
  if (r.panic) { rep.machineryErrors.push('compiler panicked on ' + show(cs2.s)); return }
  const diags = (r.diags.s || []).filter((d) => d.level >= 3)
  if (diags.length) {
    // every spelling the model produces is documented syntax: rejecting it loses the constant
    rep.count('rejected-by-the-parser:' + diags[0].kind)
    const ch = String.fromCodePoint(cs2.c)
    const cls = cs2.c === 0 ? 'NUL' : cs2.c < 0x20 ? 'control' : cs2.c < 0x7f ? JSON.stringify(ch) : cs2.c <= 0xffff ? 'BMP' : 'astral'
    rep.violation(`C12|well-formed-constant-rejected:${diags[0].kind}|${cls}|succ=${JSON.stringify(cs2.s.slice(ch.length))}`, `the parser rejects a documented spelling of ${show(cs2.s)} with "${diags[0].kind}" at ${JSON.stringify(diags[0].start)}: ${src.slice(0, 200)}`, { engine: 'c12', c: cs2.c, s: cs2.s, ctx: 'rejected' })
    return
  }
  let nodes
  let defs
  try {
    const G = RT.loadGroups(r.outputs.groups.ok, false)
    defs = Object.keys(G.s._)
    nodes = RT.render(G, 's', { l: [1] }).nodes
  } catch (e) {
    rep.violation('C12|generated-code-fails|' + String(e).slice(0, 50), `the code generated for ${show(cs2.s)} does not load or run: ${e}`, { engine: 'c12', c: cs2.c, s: cs2.s, ctx: 'load' })
    return
  }
  let p = 0
  judge(cs2, nodes[p++], cs2.hasB ? nodes[p++] : null, cs2.hasC ? nodes[p++] : null, rep, [nodes[p++], nodes[p++]], defs)
}

function namedEntities(rep) {
  // all HTML named character references, in text and in an attribute
  const table = JSON.parse(cp.execFileSync('python3', ['-c', 'import html.entities, json; print(json.dumps(html.entities.html5))'], { encoding: 'utf8' }))
  const names = Object.keys(table).filter((n) => n.endsWith(';')).sort()
  const PER = 500
  for (let start = 0; start < names.length; start += PER) {
    const part = names.slice(start, start + PER)
    const src = part.map((n) => `<e v="&${n}">[&${n}]</e>`).join('\n')
    const r = C.compileBatch([{ id: 0, files: [['s', src]], want: ['groups'] }], 1)[0]
    const nodes = RT.render(RT.loadGroups(r.outputs.groups.ok, false), 's', {}).nodes
    const bad = new Set((r.diags.s || []).filter((d) => d.level >= 3).map((d) => d.start[0]))
    part.forEach((n, i) => {
      rep.states += 1
      rep.evaluations += 2
      if (bad.has(i)) { rep.count('named-entity-rejected'); return }
      const want = table[n]
      const el = nodes[i]
      const got1 = attr(el, 'attr', 'v')
      const got2 = el.children[0] && el.children[0].text
      if (got1 !== want || got2 !== `[${want}]`) rep.violation('C12|named-entity|' + (got1 === `&${n}` ? 'not-decoded' : 'wrong'), `&${n} denotes ${show(want)}; attribute delivers ${show(got1)}, text delivers ${show(got2)}`, { engine: 'c12', entity: n })
      rep.nontrivialCase('&' + n)
    })
  }
}

function fileMarks(rep) {
  // a byte order mark at the start of the file is an encoding mark: what arrives is what the file without it denotes
  const bodies = ['<e v="x">y</e>', '\n<e v="x">y</e>', 'text<e/>', '{{ "s" }}', '<!-- c --><e/>', '', ' ', '<template name="t">z</template><template is="t"/>']
  for (const body of bodies) {
    rep.states += 1
    rep.evaluations += 1
    const render = (src) => {
      const r = C.compileBatch([{ id: 0, files: [['s', src]], want: ['groups'] }], 1)[0]
      if (r.panic) return 'panic'
      try { return JSON.stringify([RT.render(RT.loadGroups(r.outputs.groups.ok, false), 's', {}).nodes, (r.diags.s || []).map((d) => d.kind)]) } catch (e) { return 'throws ' + e }
    }
    const want = render(body)
    const got = render('\ufeff' + body)
    if (got !== want) rep.violation('C12|byte-order-mark|' + JSON.stringify(body).slice(0, 30), `the template ${show('\ufeff' + body)} (byte order mark, then ${show(body)}) delivers ${got.slice(0, 200)}, the same file without the mark delivers ${want.slice(0, 200)}`, { engine: 'c12', bom: body })
    rep.nontrivialCase('bom+' + body)
  }
}

/** string-literal bodies as sequences of source pieces: each piece has a spelling and a denotation; every sequence of <= 3 (thorough: 4) */
const LITERAL_PIECES = [
  ['a', 'a'],
  ['\\\n', ''], ['\\\r\n', ''], ['\\\r', ''], ['\\\u2028', ''], ['\\\u2029', ''], // line continuations denote nothing
  ['\n', '\n'], ['\r', '\r'], ['\u2028', '\u2028'], // a raw line break inside a literal is that character
  ['\\\\', '\\'], ['\\n', '\n'], ['\\x41', 'A'], ['\\u0041', 'A'], ['\\0', '\0'], ['0', '0'],
]
/** reference reading of a literal body (JavaScript's, with raw line breaks taken as themselves): `\\` + CR LF is ONE continuation */
function denoteLiteral(body) {
  let out = ''
  for (let i = 0; i < body.length; i++) {
    const ch = body[i]
    if (ch !== '\\') { out += ch; continue }
    const n = body[++i]
    if (n === '\r') { if (body[i + 1] === '\n') i++; continue }
    if (n === '\n' || n === '\u2028' || n === '\u2029') continue
    if (n === 'n') out += '\n'
    else if (n === '0') out += '\0'
    else if (n === 'x') { out += String.fromCharCode(parseInt(body.slice(i + 1, i + 3), 16)); i += 2 }
    else if (n === 'u') { out += String.fromCharCode(parseInt(body.slice(i + 1, i + 5), 16)); i += 4 }
    else out += n
  }
  return out
}
function literalPieces(rep, thorough, shard, of) {
  const max = thorough ? 4 : 3
  const seqs = []
  const rec = (cur, n) => { if (cur.length) seqs.push(cur); if (n === 0) return; for (let i = 0; i < LITERAL_PIECES.length; i++) rec([...cur, i], n - 1) }
  rec([], max)
  const mine = seqs.filter((_, i) => i % of === shard)
  const PER = 200
  for (let start = 0; start < mine.length; start += PER) {
    const part = mine.slice(start, start + PER)
    // one file per sequence (a raw line break moves the lines of everything behind it)
    const jobs = part.map((sq, i) => ({ id: i, files: [['s', `<b v="{{ '${sq.map((k) => LITERAL_PIECES[k][0]).join('')}' }}"/>`]], want: ['groups'] }))
    const res = C.compileBatch(jobs, 1)
    part.forEach((sq, i) => {
      rep.states += 1; rep.transitions += 1; rep.evaluations += 1
      const spelled = sq.map((k) => LITERAL_PIECES[k][0]).join('')
      const want = denoteLiteral(spelled)
      const r = res[i]
      if (r.panic) { rep.count('literal-pieces:compiler-panics (C01)'); return }
      // (NUL followed by a digit is an octal escape in JavaScript: not documented syntax here)
      if (/\\0[0-9]/.test(spelled)) { rep.count('literal-pieces:skipped-octal-like'); return }
      if ((r.diags.s || []).some((d) => d.level >= 3)) { rep.count('literal-pieces:rejected-by-the-parser'); return }
      let got
      try { const n = RT.render(RT.loadGroups(r.outputs.groups.ok, false), 's', {}).nodes.find((x) => x.t === 'el'); got = attr(n, 'attr', 'v') } catch (e) { got = 'throws ' + e }
      rep.outcome([got === want, sq.length])
      if (/[\n\r\u2028\u2029]/.test(spelled)) rep.nontrivialCase(spelled)
      if (got !== want) rep.violation('C12|literal-pieces|' + sq.map((k) => k).join('.'), `the string literal '${show(spelled).slice(1, -1)}' (pieces ${JSON.stringify(sq.map((k) => LITERAL_PIECES[k][0]))}) denotes ${show(want)} but ${show(got)} arrives`, { engine: 'c12', pieces: sq })
    })
  }
}

function replayOne(rec) {
  const rep = new C.Report()
  if (rec.entity) { namedEntities(rep) } else if (rec.bom !== undefined) { fileMarks(rep) } else if (rec.pieces) { literalPieces(rep, true, 0, 1) } else {
    const cs2 = { c: rec.c, s: rec.s, hasB: usableInLiteral(rec.s), hasC: rec.s.length === String.fromCodePoint(rec.c).length }
    checkAlone(cs2, rep)
  }
  const v = [...rep.violations.values()].filter((x) => (!rec.entity || x.replay.entity === rec.entity) && (!rec.pieces || JSON.stringify(x.replay.pieces) === JSON.stringify(rec.pieces)))
  return { deterministic: true, failure: v.length ? v.map((x) => x.what) : null }
}

async function main() {
  const replay = C.argAfter('--replay', null)
  if (replay) { console.log(JSON.stringify(replayOne(JSON.parse(require('fs').readFileSync(replay, 'utf8'))))); return }
  const thorough = C.argAfter('--tier', 'quick') === 'thorough'
  const info = C.shardInfo()
  if (info) {
    const rep = runShard(info, thorough)
    if (info.shard === 0) { namedEntities(rep); fileMarks(rep) }
    literalPieces(rep, thorough, info.shard, info.of)
    require('fs').writeFileSync(info.partial, JSON.stringify(rep.toPartial()))
    return
  }
  const rep = await C.runSharded(__filename, ['--tier', thorough ? 'thorough' : 'quick'])
  const res = rep.toResult('C12',
    'every Unicode scalar value below U+3000 plus block boundaries (quick) / every scalar value (thorough), followed by each of 16 successors, and every string of length 3 (quick) / 3-4 (thorough) over 11 critical characters (NUL, backslash, 0 7 8, both quotes, x u, brace, newline), embedded in 15 markup contexts, as wx:key, template name and static template-is target (looked up), (double / single quoted attribute, class, style, id, slot, data-, data:, mark, two event handlers, generic, extra-attr, worklet, static text), 3 string-literal spellings inside expressions (raw in either quote, \\xHH / \\uHHHH), decimal / hex character references in attribute and text, and all 2231 named character references; the string delivered to the recording runtime must equal the denoted string. non-trivial = non-ASCII, control or markup-significant character; distinct = distinct string',
    { scalars: thorough ? 'all 1112064' : 'U+0000..U+2FFF + boundaries', successors: SUCCESSORS, contexts: [...Object.keys(FIND_A), ...Object.keys(FIND_B), 'decimal-reference', 'hex-reference', 'HEX-reference', 'hex-reference-upper-case-x', 'byte-order-mark', 'references-in-text', 'named-entity', 'wx:key', 'template-name', 'template-is', 'template-lookup'] },
    true,
    ['V8 executes the generated code', 'characters a context cannot carry raw are spelled as documented (&amp; &lt; &quot; &#39; &#123;, backslash escapes in literals)', 'spellings the parser rejects at Error level are outside the property and counted'],
    {})
  C.writeResult(C.argAfter('--out', C.WORK + '/C12.result.json'), res)
}
main().catch((e) => { console.error(e); process.exit(3) })
