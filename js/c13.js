'use strict'
// C13 — cross-file references resolve by normalised path and are reported.
// Every (referrer path, relative path) pair of the bounded alphabet, for <import>, <include> and
// <wxs src>: the dependency queries list exactly the reference resolver's target, the path probes
// agree with the reference normal form, and the executed bundle links to the file registered under
// the resolved path (decoys registered at the near-miss paths), in every insertion order.

const C = require('./lib/common')
const RT = require('./lib/rt_record')
const T = require('./lib/tmplmodel')

const SEGS = ['a', 'b', '.', '..', ''] // (an empty segment: a//t — only agreement of the two halves is asserted for those)
const BASES = ['m', 'a/m', 'b/m', 'a/b/m', 'b/a/m', 'a/b/a/m']
const SUFFIX = { include: '.wxml', import: '.wxml', wxs: '.wxs' }

function rels(maxDirs) {
  const out = []
  const rec = (cur, depth) => {
    // (the last segment may itself be a dot segment: the reference then names a directory-like path)
    for (const lead of ['', '/']) for (const name of ['t', 'a', '.', '..']) { if ((name === '.' || name === '..') && cur.length === 0 && lead === '/') continue; out.push(lead + [...cur, name].join('/')) }
    if (depth === maxDirs) return
    for (const s of SEGS) rec([...cur, s], depth + 1)
  }
  rec([], 0)
  return [...new Set(out)]
}

/** reference resolution; also reports whether the path climbs above the root (not asserted strictly) */
function refResolve(base, rel, suffix) {
  let r = rel
  if (r.endsWith(suffix)) r = r.slice(0, -suffix.length)
  const segs = r.startsWith('/') ? r.slice(1).split('/') : [...base.split('/').slice(0, -1), ...r.split('/')]
  const out = []
  let climbs = false
  for (const s of segs) {
    if (s === '.') continue
    if (s === '..') { if (!out.length) climbs = true; out.pop(); continue }
    out.push(s)
  }
  return { path: out.join('/'), climbs, empty: segs.includes('') }
}

function decoys(base, rel, target) {
  const dir = base.split('/').slice(0, -1)
  const raw = rel.replace(/^\//, '')
  const cands = [
    [...dir, raw].join('/'), // not normalised
    raw, // as if root-relative
    [base, raw].join('/'), // forgot to pop the file name
    T.refNormalize([base, raw].join('/')),
    T.refNormalize(raw),
    T.refNormalize([...dir, raw].join('/')),
    target + '.wxml', target + '.wxs',
    target.split('/').slice(-1)[0],
    'x/' + target,
  ]
  return [...new Set(cands)].filter((p) => p !== target && p !== base && p !== '' && !p.includes('//') && !p.split('/').some((s) => s === '.' || s === '..' || s === ''))
}

function permutations(n, limit) {
  const out = []
  const rec = (cur, used) => {
    if (out.length >= limit) return
    if (cur.length === n) { out.push(cur.slice()); return }
    for (let i = 0; i < n; i++) if (!used[i]) { used[i] = true; cur.push(i); rec(cur, used); cur.pop(); used[i] = false }
  }
  rec([], [])
  return out
}

function buildCase(kind, base, rel, sufVariant) {
  const suffix = SUFFIX[kind]
  // 0: no suffix; 1: the optional suffix; 2: a decoy suffix; 3: the suffix twice (exactly one is optional: the target's own name ends in the suffix)
  const spelled = rel + (sufVariant === 1 ? suffix : sufVariant === 2 ? suffix + 'x' : sufVariant === 3 ? suffix + suffix : '')
  const ref = refResolve(base, spelled, suffix)
  const target = ref.path
  const files = []
  const scripts = []
  const dec = decoys(base, spelled, target).slice(0, 3)
  if (kind === 'include') {
    files.push([base, `<include src="${spelled}"/>`])
    files.push([target, 'TARGET'])
    for (const d of dec) files.push([d, 'DECOY:' + d])
  } else if (kind === 'import') {
    files.push([base, `<import src="${spelled}"/><template is="t"/>`])
    files.push([target, '<template name="t">TARGET</template>'])
    for (const d of dec) files.push([d, `<template name="t">DECOY:${d}</template>`])
  } else {
    files.push([base, `<wxs module="m" src="${spelled}"/>{{m.k}}`])
    scripts.push([target, 'exports.k = "TARGET"'])
    for (const d of dec) scripts.push([d, `exports.k = "DECOY:${d}"`])
  }
  return { kind, base, rel: spelled, target, ref, files, scripts }
}

/** template lookup precedence: local definitions first, then imports, later imports before earlier ones */
function precedenceCases() {
  const out = []
  const spellings = [['p', 'd/p'], ['q', 'd/q'], ['./p', 'd/p'], ['/d/../d/p.wxml', 'd/p'], ['../d/q', 'd/q'], ['r', 'd/r']]
  const seqs = []
  for (const a of spellings) { seqs.push([a]); for (const b of spellings) { seqs.push([a, b]); for (const c of spellings) seqs.push([a, b, c]) } }
  for (const seq of seqs) for (const local of [false, true]) for (const defAfter of [false, true]) {
    if (defAfter && !local) continue
    const imports = seq.map(([sp]) => `<import src="${sp}"/>`).join('')
    const localDef = local ? '<template name="t">LOCAL</template>' : ''
    const main = defAfter ? `${imports}<template is="t"/>${localDef}` : `${localDef}${imports}<template is="t"/>`
    const files = [['d/m', main], ['d/p', '<template name="t">P</template><template name="u">PU</template>'], ['d/q', '<template name="t">Q</template>'], ['d/r', '<template name="u">RU</template>']]
    // expected: local, else the last import (in source order) whose file defines t
    let want = local ? 'LOCAL' : null
    if (!local) for (const [, target] of seq) { if (target === 'd/p') want = 'P'; if (target === 'd/q') want = 'Q' }
    out.push({ kind: 'precedence', base: 'd/m', rel: seq.map((x) => x[0]).join(' , ') + (local ? (defAfter ? ' +local-after' : ' +local') : ''), files, scripts: [], want: want === null ? '' : JSON.stringify(want), deps: [...new Set(seq.map((x) => x[1]))], seq })
  }
  return out
}

function allCases(thorough) {
  const out = []
  for (const c of precedenceCases()) out.push(c)
  const R = rels(thorough ? 3 : 2)
  for (const kind of ['include', 'import', 'wxs']) for (const base of BASES) for (const rel of R) for (const sv of [0, 1, 2, 3]) {
    if (sv !== 0 && (rel.endsWith('.') )) continue // a dot segment takes no suffix
    const c = buildCase(kind, base, rel, sv)
    if (c.target === '' || c.target === c.base) continue
    out.push(c)
  }
  return out
}

/** file names that every ordinary JavaScript object also answers to: a reference to such a name links to the file registered under
 *  it, and to nothing when no file is registered under it - exactly like a reference to the name `zz` */
const OBJECT_NAMES = ['constructor', 'toString', 'valueOf', 'hasOwnProperty', '__proto__', 'call', 'isPrototypeOf', '__defineGetter__']
function objectNameCases() {
  const out = []
  for (const kind of ['include', 'import', 'wxs']) for (const name of [...OBJECT_NAMES, 'zz']) for (const registered of [true, false]) for (const protoFile of [false, true]) {
    if (protoFile && (registered || name === '__proto__')) continue
    const files = []
    const scripts = []
    if (kind === 'include') { files.push(['m', `<include src="${name}"/>`]); if (registered) files.push([name, 'TARGET']) }
    else if (kind === 'import') { files.push(['m', `<import src="${name}"/><template is="t"/>`]); if (registered) files.push([name, '<template name="t">TARGET</template>']) }
    else { files.push(['m', `<wxs module="m" src="${name}"/>{{m.k}}`]); if (registered) scripts.push([name, 'exports.k = "TARGET"']) }
    // (an unrelated file registered under `__proto__` must not change what the other names link to)
    if (protoFile) { if (kind === 'wxs') scripts.push(['__proto__', 'exports.k = "P"']); else files.push(['__proto__', '<template name="t">P</template>']) }
    out.push({ kind, name, registered, protoFile, files, scripts })
  }
  return out
}
function runObjectNames(rep) {
  const cases = objectNameCases()
  const res = C.compileBatch(cases.map((c, i) => ({ id: i, files: c.files, scripts: c.scripts, want: ['groups'] })), 1)
  const outcome = cases.map((c, i) => {
    if (res[i].panic) return 'panic'
    try { return T.showTree(T.normActual(RT.flatten(RT.render(RT.loadGroups(res[i].outputs.groups.ok, false), 'm', {}).nodes, true))) } catch (e) { return 'throws' }
  })
  cases.forEach((c, i) => {
    rep.states += 1
    rep.transitions += 1
    rep.evaluations += 1
    const twin = cases.findIndex((d) => d.kind === c.kind && d.name === 'zz' && d.registered === c.registered && d.protoFile === c.protoFile)
    rep.outcome(['object-name', c.kind, c.registered, outcome[i]])
    rep.nontrivialCase(`object-name ${c.kind} ${c.name} ${c.registered} ${c.protoFile}`)
    if (outcome[i] !== outcome[twin]) {
      rep.violation(`C13|name-of-an-object-member|${c.kind}|${c.registered ? 'registered' : 'not-registered'}`, `${c.kind} src="${c.name}" in "m" with ${c.registered ? 'the target registered' : 'no file registered under that path'}${c.protoFile ? ' and an unrelated file registered as "__proto__"' : ''}: the bundle ${outcome[i] === 'throws' ? 'throws' : 'renders ' + outcome[i]}; the same reference to the name "zz" ${outcome[twin] === 'throws' ? 'throws' : 'renders ' + outcome[twin]}`, { engine: 'c13', kind: 'object-name', refKind: c.kind, name: c.name, registered: c.registered, protoFile: c.protoFile })
    }
  })
}

function runShard(info, thorough) {
  const rep = new C.Report()
  if (info.shard === 0) runObjectNames(rep)
  const all = allCases(thorough)
  const mine = all.filter((_, i) => i % info.of === info.shard)
  const CH = 300
  for (let s = 0; s < mine.length; s += CH) {
    const part = mine.slice(s, s + CH)
    // one job per (case, insertion order)
    const jobs = []
    part.forEach((c, ci) => {
      const n = c.files.length + c.scripts.length
      const orders = thorough ? permutations(n, 24) : [Array.from({ length: n }, (_, i) => i), Array.from({ length: n }, (_, i) => n - 1 - i), Array.from({ length: n }, (_, i) => (i + 1) % n)]
      orders.forEach((o, oi) => {
        const items = [...c.files.map((f) => ['f', f]), ...c.scripts.map((f) => ['s', f])]
        const ordered = o.map((i) => items[i])
        jobs.push({ id: jobs.length, files: ordered.filter((x) => x[0] === 'f').map((x) => x[1]), scripts: ordered.filter((x) => x[0] === 's').map((x) => x[1]), want: oi === 0 ? ['groups', 'deps'] : ['groups'], paths: oi === 0 ? [[c.base, c.rel]] : undefined, __c: ci, __o: oi })
      })
      // the dependency queries name the targets of the references, registered or not: the referring file alone
      if (c.kind !== 'precedence') jobs.push({ id: jobs.length, files: c.files.filter((f) => f[0] === c.base), scripts: [], want: ['deps'], __c: ci, __o: -1 })
    })
    const res = C.compileBatch(jobs.map((j) => ({ id: j.id, files: j.files, scripts: j.scripts, want: j.want, paths: j.paths })), 1)
    jobs.forEach((j, k) => {
      const c = part[j.__c]
      const r = res[k]
      if (c.kind === 'precedence') {
        rep.transitions += 1
        if (j.__o === 0) rep.states += 1
        rep.evaluations += 2
        if (r.panic) { rep.violation('C13|compiler-panic|precedence', 'the compiler panics on imports ' + c.rel, { engine: 'c13', kind: 'precedence', rel: c.rel }); return }
        let rendered
        try { rendered = T.showTree(T.normActual(RT.flatten(RT.render(RT.loadGroups(r.outputs.groups.ok, false), c.base, {}).nodes, true))) } catch (e) { rendered = 'throws ' + String(e).slice(0, 80) }
        if (rendered !== c.want) rep.violation('C13|template-lookup-precedence', `imports [${c.rel}] then <template is="t"/> (insertion order ${j.__o}): renders ${rendered}, expected ${c.want} (local definitions first, later imports before earlier ones)`, { engine: 'c13', kind: 'precedence', rel: c.rel })
        if (j.__o === 0) {
          const listed = r.deps[c.base].direct
          // exactly the resolved targets of the file's import references (one entry per reference)
          const wantDeps = c.seq.map((x) => x[1])
          if (JSON.stringify(listed) !== JSON.stringify(wantDeps)) rep.violation('C13|dependency-list|imports', `imports [${c.rel}]: direct_dependencies = ${JSON.stringify(listed)}, resolved references ${JSON.stringify(wantDeps)}`, { engine: 'c13', kind: 'precedence', rel: c.rel })
          rep.nontrivialCase('precedence ' + c.rel)
        }
        rep.outcome(['precedence', rendered === c.want, c.seq.length])
        return
      }
      const strict = !c.ref.climbs && !c.ref.empty
      const label = `${c.kind} src="${c.rel}" in "${c.base}"`
      if (j.__o === -1) {
        rep.transitions += 1
        rep.evaluations += 1
        if (r.panic) { rep.violation(`C13|compiler-panic|${c.kind}`, `the compiler panics on ${label} (referrer alone)`, { engine: 'c13', kind: c.kind, base: c.base, rel: c.rel }); return }
        const deps = r.deps[c.base]
        const listed = c.kind === 'wxs' ? deps.scripts : deps.direct
        if (strict && (listed.length !== 1 || listed[0] !== c.target)) rep.violation(`C13|dependency-list-without-registered-target|${c.kind}`, `${label}, only the referring file added: the dependency query lists ${JSON.stringify(listed)}, the reference resolver gives ${JSON.stringify(c.target)}`, { engine: 'c13', kind: c.kind, base: c.base, rel: c.rel, alone: true })
        return
      }
      rep.transitions += 1
      if (r.panic) { rep.violation(`C13|compiler-panic|${c.kind}`, `the compiler panics on ${label}`, { engine: 'c13', kind: c.kind, base: c.base, rel: c.rel }); return }
      if (j.__o === 0) {
        rep.states += 1
        // dependency queries
        const deps = r.deps[c.base]
        const listed = c.kind === 'wxs' ? deps.scripts : deps.direct
        const other = c.kind === 'wxs' ? deps.direct : deps.scripts
        rep.evaluations += 2
        if (strict) {
          if (listed.length !== 1 || listed[0] !== c.target) rep.violation(`C13|dependency-list|${c.kind}`, `${label}: the dependency query lists ${JSON.stringify(listed)}, the reference resolver gives ${JSON.stringify(c.target)}`, { engine: 'c13', kind: c.kind, base: c.base, rel: c.rel })
          if (other.length) rep.violation(`C13|dependency-list-of-the-other-kind|${c.kind}`, `${label}: unexpected entries ${JSON.stringify(other)}`, { engine: 'c13', kind: c.kind, base: c.base, rel: c.rel })
          const pr = r.paths[0]
          if (pr.resolve !== c.target && c.kind !== 'wxs' && !c.rel.endsWith('.wxml') && !c.rel.endsWith('.wxmlx')) rep.violation(`C13|resolve-probe|${c.kind}`, `resolve(${JSON.stringify(c.base)}, ${JSON.stringify(c.rel)}) = ${JSON.stringify(pr.resolve)}, reference ${JSON.stringify(c.target)}`, { engine: 'c13', kind: c.kind, base: c.base, rel: c.rel })
          // a file registered by the referrer's spelling is found under the reference normal form
          if (pr.normalize_base !== T.refNormalize(c.base)) rep.violation('C13|normalize-probe', `normalize(${JSON.stringify(c.base)}) = ${JSON.stringify(pr.normalize_base)}`, { engine: 'c13', kind: c.kind, base: c.base, rel: c.rel })
        } else {
          rep.count('not-asserted-strictly:climbs-above-root-or-empty-segment')
        }
        c.__listed = listed
        if (!strict || c.rel.includes('..') || c.rel.includes('./')) rep.nontrivialCase(label)
      }
      // linking: the executed bundle must reach the registered target
      let rendered
      try {
        const Gs = RT.loadGroups(r.outputs.groups.ok, false)
        rendered = T.showTree(T.normActual(RT.flatten(RT.render(Gs, c.base, {}).nodes, true)))
      } catch (e) { rendered = 'throws ' + String(e).slice(0, 80) }
      rep.evaluations += 1
      let want
      if (strict) want = '"TARGET"'
      else {
        // only agreement of the two halves is required: the key the generated code uses == the dependency list entry
        const key = c.__listed && c.__listed[0]
        const hit = [...c.files, ...c.scripts].find((f) => f[0] === key)
        want = hit ? JSON.stringify(hit[1].replace(/<[^>]*>/g, '').replace(/exports.k = "|"$/g, '')) : null
      }
      rep.outcome([c.kind, rendered === want, strict, j.__o])
      if (want !== null && rendered !== want) {
        rep.violation(`C13|links-to-another-file|${c.kind}${strict ? '' : '|halves-disagree'}`, `${label} (insertion order ${j.__o}): the bundle renders ${rendered}, expected ${want}; files ${JSON.stringify(jobs[k].files.map((f) => f[0]))} scripts ${JSON.stringify(jobs[k].scripts.map((f) => f[0]))}`, { engine: 'c13', kind: c.kind, base: c.base, rel: c.rel, order: j.__o })
      }
      if (k % 3001 === 0) rep.sample({ reference: label, target: c.target, files: jobs[k].files.map((f) => f[0]), scripts: jobs[k].scripts.map((f) => f[0]), rendered })
    })
  }
  return rep
}

function replayOne(rec) {
  if (rec.kind === 'object-name') {
    const rep = new C.Report()
    runObjectNames(rep)
    const hit = [...rep.violations.values()].filter((v) => v.replay && v.replay.refKind === rec.refKind && v.replay.registered === rec.registered)
    return { deterministic: true, failure: hit.length ? hit.map((v) => v.what) : null }
  }
  if (rec.kind === 'precedence') {
    const c = precedenceCases().find((x) => x.rel === rec.rel)
    const r = C.compileBatch([{ id: 0, files: c.files, scripts: [], want: ['groups'] }], 1)[0]
    let rendered
    try { rendered = T.showTree(T.normActual(RT.flatten(RT.render(RT.loadGroups(r.outputs.groups.ok, false), c.base, {}).nodes, true))) } catch (e) { rendered = 'throws' }
    return { deterministic: true, failure: rendered === c.want ? null : 'renders ' + rendered + ', expected ' + c.want }
  }
  const sv = 0
  const c = buildCase(rec.kind, rec.base, rec.rel, sv)
  if (rec.alone) {
    const r0 = C.compileBatch([{ id: 0, files: c.files.filter((f) => f[0] === c.base), scripts: [], want: ['deps'] }], 1)[0]
    const l0 = rec.kind === 'wxs' ? r0.deps[c.base].scripts : r0.deps[c.base].direct
    return { deterministic: true, failure: l0.length === 1 && l0[0] === c.target ? null : 'dependency list ' + JSON.stringify(l0) + ' vs ' + c.target }
  }
  const r = C.compileBatch([{ id: 0, files: c.files, scripts: c.scripts, want: ['groups', 'deps'] }], 1)[0]
  const out = []
  const strict = !c.ref.climbs && !c.ref.empty
  const listed = rec.kind === 'wxs' ? r.deps[c.base].scripts : r.deps[c.base].direct
  if (strict && (listed.length !== 1 || listed[0] !== c.target)) out.push('dependency list ' + JSON.stringify(listed) + ' vs ' + c.target)
  try {
    const rendered = T.showTree(T.normActual(RT.flatten(RT.render(RT.loadGroups(r.outputs.groups.ok, false), c.base, {}).nodes, true)))
    if (strict && rendered !== '"TARGET"') out.push('renders ' + rendered)
  } catch (e) { out.push('throws ' + e) }
  return { deterministic: true, failure: out.length ? out : null }
}

async function main() {
  const replay = C.argAfter('--replay', null)
  if (replay) { console.log(JSON.stringify(replayOne(JSON.parse(require('fs').readFileSync(replay, 'utf8'))))); return }
  const thorough = C.argAfter('--tier', 'quick') === 'thorough'
  const info = C.shardInfo()
  if (info) {
    const rep = runShard(info, thorough)
    require('fs').writeFileSync(info.partial, JSON.stringify(rep.toPartial()))
    return
  }
  const rep = await C.runSharded(__filename, ['--tier', thorough ? 'thorough' : 'quick'])
  const res = rep.toResult('C13',
    'every (referrer path, relative path) pair: 6 referrer paths of depth 0-3, relative paths of up to 2 (quick) / 3 (thorough) directory segments over {a, b, ., ..} with and without a leading slash, two file names, with no suffix / the optional suffix / a decoy suffix; for <import>, <include> and <wxs src>; target registered under the reference-resolved path, up to 3 decoys at near-miss paths (not normalised, root-relative, file name not popped, suffix kept, bare name, prefixed); 3 rotations (quick) / every permutation (thorough) of the insertion order. Dependency queries == [reference target]; path probes == reference normal form; the executed bundle renders the target marker. References that climb above the root are only required to agree between the dependency list and the linked key. non-trivial = the reference contains . or .. segments or is not asserted strictly',
    { referrers: BASES, relative_paths: rels(thorough ? 3 : 2).length, kinds: ['include', 'import', 'wxs'], cases: allCases(thorough).length },
    true,
    ['V8 and the recording runtime execute the bundle', 'the reference resolver is the POSIX-like one of the property text: directory of the referrer, root on a leading slash, . and .. folded, one optional suffix dropped'],
    {})
  C.writeResult(C.argAfter('--out', C.WORK + '/C13.result.json'), res)
}
main().catch((e) => { console.error(e); process.exit(3) })
