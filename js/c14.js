'use strict'
// C14 — stringify is a faithful, stable inverse of parse.
// For every input t (model corpus, expression shapes in text / attribute position, scope skeletons,
// single-deviation mutants of well-formed templates), plain and mangled:
//   p1 = print(parse(t)); (i) parse(p1) has no diagnostic above Note; (ii) print(parse(p1)) == p1;
//   (iii) gen(t) and gen(p1) render equal trees under every environment (differential, substrate B).

const C = require('./lib/common')
const RT = require('./lib/rt_record')
const T = require('./lib/tmplmodel')
const G = require('./lib/tmplgen')
const M = require('./lib/exprmodel')
const { MAIN, SLOT_INSTANCES } = require('./lib/treecheck')
const SG = require('./lib/scopegen')
const { text, el, wxs, A, E } = T

function exprCases() {
  const out = []
  const W = wxs('m', 'exports.f = function(a){ return "<" + a + ">" }')
  const shapes = M.shapes(2)
  const lits = [...M.NUMBER_LITERALS, ...M.STRING_LITERALS, ...M.KEYWORD_LITERALS].map((t) => M.lit(t))
  const withLits = [...shapes, ...lits, ...lits.map((l) => M.bin('+', l, M.id('a'))), ...lits.map((l) => M.bin('+', M.id('a'), l)), ...lits.map((l) => M.arr([l])), ...lits.map((l) => M.cond(M.id('a'), l, M.id('b'))), ...lits.map((l) => M.mem(l, 'length')), ...lits.map((l) => M.idx(l, M.id('a'))), ...lits.map((l) => M.call(M.mem(l, 'toString'), []))]
  withLits.forEach((e, i) => {
    const s = M.printMin(e)
    if (s.includes('"') && s.includes("'")) return
    out.push({ name: `expr-in-text:${s}`, main: [W, text(E(e))], files: {}, scripts: {}, exprOnly: true })
    out.push({ name: `expr-in-attr:${s}`, main: [W, el('v', [A.plain('p', E(e))])], files: {}, scripts: {}, exprOnly: true })
    if (i % 3 === 0) out.push({ name: `expr-in-mixed-text:${s}`, main: [W, text('a', E(e), 'b')], files: {}, scripts: {}, exprOnly: true })
  })
  return out
}

const MUT_SIGMA = ['<', '>', '"', "'", '{', '}', '/', '=', '&', ' ', '{{', '}}']
function mutants(texts) {
  const out = []
  texts.forEach((t, ti) => {
    const chars = Array.from(t)
    for (let i = 0; i <= chars.length; i++) {
      if (i < chars.length) out.push({ name: `mutant:${ti}:delete@${i}`, raw: chars.slice(0, i).concat(chars.slice(i + 1)).join('') })
      out.push({ name: `mutant:${ti}:truncate@${i}`, raw: chars.slice(0, i).join('') })
      for (const s of MUT_SIGMA) out.push({ name: `mutant:${ti}:insert${JSON.stringify(s)}@${i}`, raw: chars.slice(0, i).join('') + s + chars.slice(i).join('') })
    }
  })
  return out
}

function allCases(thorough) {
  const base = G.corpus(thorough)
  const cases = [...base, ...exprCases()]
  // scope skeletons with colliding names (the printer tracks scope names; mangling renames them)
  for (const c of SG.corpus(thorough ? 2 : 1)) cases.push(Object.assign({ scopeCase: true }, c))
  // single-deviation mutants of the first well-formed templates (ill-formed inputs)
  const seeds = base.filter((c) => Object.keys(c.files).length === 0).slice(0, thorough ? 400 : 120).map((c) => T.print(c.main).text).filter((t) => t.length < 90)
  for (const m of mutants(seeds)) cases.push(m)
  // text pieces next to each other, with and without an (unprinted) comment between them: braces must not join
  const PIECES = ['{', '}', '{{a}}', 'x{', '{x', '}}', '&#123;', 'a', '{{"{"}}', "{{ 'a' + b }}"]
  const SEPS = ['', '<!-- c -->']
  for (const p1 of PIECES) for (const s1 of SEPS) for (const p2 of PIECES) {
    cases.push({ name: `adjacent-text:${p1}${s1}${p2}`, raw: `<div>${p1}${s1}${p2}</div>` })
    for (const s2 of SEPS) for (const p3 of PIECES) cases.push({ name: `adjacent-text:${p1}${s1}${p2}${s2}${p3}`, raw: `<div>${p1}${s1}${p2}${s2}${p3}</div>` })
  }
  return cases
}

const ENV_NAMES = ['a', 'b', 'c']
function envsFor(cs) {
  if (cs.raw !== undefined) return [{ x: 'X', y: 'Y', c: 1, d: 0, a: { b: 'B' }, n: 't', list: [1, 2] }, { x: undefined, c: 0, d: 1, list: [] }]
  if (cs.scopeCase) return [SG.DATA]
  if (cs.exprOnly) {
    const pool = [undefined, null, 0, 1, '', 'a', NaN, [1, 2], { x: 1 }, true]
    const out = []
    for (const a of pool) for (const b of [undefined, 0, 'b', null, [3]]) out.push({ a, b, c: 1 })
    return out
  }
  const names = G.collectNames([cs.main, cs.files])
  const envs = G.environments(names, 60)
  return envs
}

function srcFiles(cs, syntax) {
  if (cs.raw !== undefined) return [[MAIN, cs.raw]]
  const files = [[MAIN, T.print(cs.main, syntax).text]]
  for (const p of Object.keys(cs.files)) files.push([p, T.print(cs.files[p], syntax).text])
  return files
}

function renderAll(bundleCode, envs) {
  let Gs
  try { Gs = RT.loadGroups(bundleCode, false) } catch (e) { return { loadError: String(e) } }
  const out = []
  for (const data of envs) {
    try { out.push(T.showTree(mergeText(T.sortAttrs(T.normActual(RT.flatten(RT.render(Gs, MAIN, data, { slotValues: (n) => [...SLOT_INSTANCES(n), ...SG.SLOTS(n)] }).nodes, true)))))) } catch (e) { out.push('throws ' + (e && e.constructor && e.constructor.name)) }
  }
  return { trees: out }
}

/** adjacent text nodes render as one run of text: their boundary is not part of the behaviour compared here */
function mergeText(tree) {
  const out = []
  for (const n of tree) {
    const last = out[out.length - 1]
    if (n.t === 'text' && last && last.t === 'text') { last.text = String(last.text) + String(n.text); continue }
    if (n.children) n.children = mergeText(n.children)
    out.push(n.t === 'text' ? { t: 'text', text: n.text } : n)
  }
  return out.filter((n) => !(n.t === 'text' && n.text === ''))
}

function classify(cs) {
  if (cs.raw !== undefined) return cs.name.startsWith('adjacent-text') ? 'adjacent-text' : 'mutant'
  return cs.name.replace(/\(.*/, '').replace(/:.*/, (m) => (cs.exprOnly ? '' : m))
}

function runShard(info, thorough) {
  const rep = new C.Report()
  const all = allCases(thorough)
  const mine = all.filter((_, i) => i % info.of === info.shard)
  const CH = 300
  for (let s = 0; s < mine.length; s += CH) {
    const part = mine.slice(s, s + CH)
    const jobs1 = part.map((cs, i) => ({ id: i, files: srcFiles(cs), scripts: Object.keys(cs.scripts || {}).map((p) => [p, cs.scripts[p]]), want: ['groups', 'stringify'] }))
    const r1 = C.compileBatch(jobs1, 1)
    // second round: the printed texts, plain and mangled
    const jobs2 = []
    part.forEach((cs, i) => {
      for (const mode of ['stringify', 'stringify_mangled']) {
        const files = jobs1[i].files.map(([p]) => [p, (r1[i].outputs[`${mode}:${p}`] || {}).ok])
        jobs2.push({ id: jobs2.length, files: files.map(([p, t]) => [p, t === undefined ? '' : t]), scripts: jobs1[i].scripts, want: ['groups', 'stringify'], __i: i, __mode: mode, __missing: files.some((f) => f[1] === undefined) })
      }
    })
    const r2 = C.compileBatch(jobs2.map((j) => ({ id: j.id, files: j.files, scripts: j.scripts, want: j.want })), 1)
    jobs2.forEach((j, k) => {
      const cs = part[j.__i]
      const first = r1[j.__i]
      const second = r2[k]
      const src = jobs1[j.__i].files.map((f) => f[1]).join(' | ')
      const printed = j.files.map((f) => f[1]).join(' | ')
      const mangled = j.__mode === 'stringify_mangled'
      rep.transitions += 1
      const tag = `${mangled ? 'mangled:' : ''}`
      // the recorded finding: a binding that is a single empty string literal is printed as static (empty) text
      const emptyLiteral = cs.exprOnly && /^expr-in-(text|mixed-text):'(\\[nrtfvb0]| |)*'$/.test(cs.name) && /^expr-in-(text|mixed-text):'(\\[nrtfv]| )*'$/.test(cs.name)
      const viol = (kind, what) => rep.violation(emptyLiteral ? 'C14|blank-string-literal-binding-printed-as-static-text' : `C14|${tag}${kind}|${classify(cs)}`, `${what} — input ${JSON.stringify(src)} printed as ${JSON.stringify(printed)} (${cs.name})`, { engine: 'c14', case: cs.name, raw: cs.raw, mangled, kind })
      if (first.panic) { if (!mangled) rep.count('input-makes-the-compiler-panic (C01)'); return }
      if (j.__missing) { rep.machineryErrors.push('no printed text for ' + cs.name); return }
      if (second.panic) { viol('printed-text-makes-the-compiler-panic', JSON.stringify(second.panic)); return }
      rep.states += 1
      if (mangled && /wx:for=/.test(printed) && /_\$\d/.test(printed) && !/wx:for-item="_\$/.test(printed)) {
        // the recorded finding: mangled printing renames the uses of wx:for variables but does not declare the
        // new names (pinned by the unit tests for_scope / for_if_scope); nothing else can be judged on such a text
        const envs0 = envsFor(cs)
        const a0 = renderAll(first.outputs.groups.ok, envs0)
        const b0 = second.outputs.groups ? renderAll(second.outputs.groups.ok, envs0) : { loadError: 'x' }
        if (!a0.loadError && (b0.loadError || a0.trees.some((t, e) => t !== b0.trees[e]))) rep.violation('C14|mangled:wx-for-scope-names-not-declared', `mangled printing renames uses of wx:for variables without declaring the names: ${JSON.stringify(src)} is printed as ${JSON.stringify(printed)}`, { engine: 'c14', case: cs.name, raw: cs.raw, mangled, kind: 'for-mangling' })
        return
      }
      // (i) no diagnostic above Note on the printed text
      const bad = []
      for (const p of Object.keys(second.diags)) for (const d of second.diags[p]) if (d.level >= 2) bad.push(d.kind)
      if (bad.length) viol('printed-text-has-diagnostics:' + bad[0], `re-parsing the printed text reports ${JSON.stringify(bad)}`)
      // (ii) fixpoint: printing the re-parsed template with the same mode gives the same text
      for (const [p, t] of j.files) {
        const again = (second.outputs[`${j.__mode}:${p}`] || {}).ok
        rep.evaluations += 1
        if (again !== t) { viol('not-a-fixpoint', `printing again gives ${JSON.stringify(again)}`); break }
      }
      // (iii) behaviour: gen(t) vs gen(p1)
      const envs = envsFor(cs)
      const a = renderAll(first.outputs.groups.ok, envs)
      const b = renderAll(second.outputs.groups.ok, envs)
      rep.evaluations += envs.length
      if (a.loadError) { rep.count('original-bundle-does-not-load (C02)'); return }
      if (b.loadError) { viol('printed-bundle-does-not-load', b.loadError); return }
      for (let e = 0; e < envs.length; e++) {
        if (a.trees[e] !== b.trees[e]) { viol('renders-differently', `with data ${T.showValue(envs[e])} the original renders ${a.trees[e].slice(0, 200)} and the printed text renders ${b.trees[e].slice(0, 200)}`); break }
      }
      rep.outcome([classify(cs), mangled, bad.length, printed.length % 7])
      if (printed !== src) rep.nontrivialCase(src + '|' + mangled)
      if ((s + k) % 4001 === 0) rep.sample({ input: src, printed, mangled })
    })
  }
  return rep
}

function replayOne(rec) {
  const all = allCases(true)
  const cs = rec.raw !== undefined && rec.raw !== null ? { name: rec.case, raw: rec.raw } : all.find((c) => c.name === rec.case)
  if (!cs) return { deterministic: true, failure: null, note: 'case no longer in the corpus' }
  const run = () => {
    const rep = new C.Report()
    // run the one case through the same code path
    const saved = allCases
    const info = { shard: 0, of: 1 }
    const part = [cs]
    const fake = { allCases: () => part }
    return runOne(cs)
  }
  const a = run(); const b = run()
  return { deterministic: JSON.stringify(a) === JSON.stringify(b), failure: a.length ? a : null }
}
function runOne(cs) {
  const jobs1 = [{ id: 0, files: srcFiles(cs), scripts: Object.keys(cs.scripts || {}).map((p) => [p, cs.scripts[p]]), want: ['groups', 'stringify'] }]
  const r1 = C.compileBatch(jobs1, 1)
  const out = []
  for (const mode of ['stringify', 'stringify_mangled']) {
    const files = jobs1[0].files.map(([p]) => [p, (r1[0].outputs[`${mode}:${p}`] || {}).ok || ''])
    const second = C.compileBatch([{ id: 0, files, scripts: jobs1[0].scripts, want: ['groups', 'stringify'] }], 1)[0]
    if (second.panic) { out.push(mode + ': printed text makes the compiler panic'); continue }
    for (const p of Object.keys(second.diags)) for (const d of second.diags[p]) if (d.level >= 2) out.push(`${mode}: printed text has diagnostic ${d.kind}`)
    for (const [p, t] of files) if ((second.outputs[`${mode}:${p}`] || {}).ok !== t) out.push(`${mode}: not a fixpoint`)
    const envs = envsFor(cs)
    const a = renderAll(r1[0].outputs.groups.ok, envs); const b = renderAll(second.outputs.groups.ok, envs)
    if (!a.loadError && (b.loadError || a.trees.some((t, i) => t !== b.trees[i]))) out.push(`${mode}: renders differently`)
  }
  return out
}

async function main() {
  const replay = C.argAfter('--replay', null)
  if (replay) { console.log(JSON.stringify(replayOne(JSON.parse(require('fs').readFileSync(replay, 'utf8'))))); return }
  const thorough = C.argAfter('--tier', 'quick') === 'thorough'
  const info = C.shardInfo()
  if (info) {
    const rep = runShard(info, thorough)
    require('fs').writeFileSync(info.partial, JSON.stringify(rep.toPartial()))
    return
  }
  const rep = await C.runSharded(__filename, ['--tier', thorough ? 'thorough' : 'quick'])
  const res = rep.toResult('C14',
    'the model corpus (C04 / C07), every expression shape of operator depth <= 2 and every literal of the pool in text, attribute and mixed-text position (the printer has its own parenthesisation table), and every single deviation (delete, truncate, insert one of 12 symbols at every position) of short well-formed templates; each printed plain and mangled: re-parse has no diagnostic above Note, printing again is a fixpoint, and the generated code of the original and of the printed text render equal trees under every environment. non-trivial = the printed text differs from the input; distinct = (input, mode)',
    { cases: allCases(thorough).length, modes: ['plain', 'mangled'] },
    true,
    ['V8 runs both bundles on the recording runtime; differential oracle (no expected value)', 'inputs on which the compiler panics or whose bundle does not load are C01 / C02 business and counted'],
    {})
  C.writeResult(C.argAfter('--out', C.WORK + '/C14.result.json'), res)
}
main().catch((e) => { console.error(e); process.exit(3) })
