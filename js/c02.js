'use strict'
// C02 — every emitted JavaScript artefact is a syntactically valid program.
// Bounded-exhaustive spaces: (a) identifier-counter states (one large template per declaration-site
// kind visits every counter value up to the bound), (b) every short name over a name alphabet (plus
// the reserved words) in every naming position, (c) every short template / script path over a path
// alphabet, (d) every short string over a literal alphabet in every literal position and the number
// spellings, (e) inline and external script bodies with awkward endings, (f) every token string up to
// a length over a template token alphabet and every single-character deviation of well-formed
// templates (ill-formed inputs). Oracle: V8 parses every artefact (vm.Script), sloppy and strict.
// Parse only, never run.

const vm = require('vm')
const C = require('./lib/common')
const M = require('./lib/exprmodel')
const T = require('./lib/tmplmodel')
const G = require('./lib/tmplgen')
const SG = require('./lib/scopegen')

// ---------------------------------------------------------------------------------------------
// oracle

function parses(src) {
  const tryOne = (s) => { try { new vm.Script(s); return null } catch (e) { return String(e.message) } }
  const out = []
  for (const [mode, prefix] of [['sloppy', ''], ['strict', '"use strict";\n']]) {
    let err = tryOne(prefix + src)
    if (err !== null) {
      // an artefact that is an expression (object / function expression) rather than a program
      const err2 = tryOne(prefix + '(' + src + '\n)')
      if (err2 === null) err = null
    }
    if (err !== null) out.push([mode, err])
  }
  return out
}

/** the premise "the inline script body is itself valid JavaScript": valid as the body of a function, written right after the
 *  opening brace and followed by a line break (so a final line comment is fine, an html-like `-->` that needs to start a line is not) */
function validBody(body) {
  for (const prefix of ['', '"use strict";\n']) {
    try { new vm.Script(prefix + '(function(require,exports,module){' + body + '\n})') } catch (e) { return false }
  }
  return true
}

// ---------------------------------------------------------------------------------------------
// spaces

function strings(alphabet, maxLen) {
  const out = []
  const rec = (cur, len) => { if (len > 0) out.push(cur); if (len === maxLen) return; for (const a of alphabet) rec(cur + a, len + 1) }
  rec('', 0)
  return out
}

const RESERVED = ['if', 'in', 'do', 'var', 'for', 'let', 'new', 'try', 'class', 'default', 'this', 'true', 'null', 'undefined', 'arguments', 'eval', 'static', 'yield', 'await', 'void', 'delete', 'typeof', 'function', 'return', 'with', 'enum', 'package', 'interface', '__proto__', 'constructor', 'async', 'of', 'get', 'set', 'NaN', 'Infinity', 'Object', 'D', 'R', 'C', 'U', 'N', 'X', 'Y', 'Z', 'Q', 'H', 'S', 'I', 'P', 'K', 'L', 'O', 'A', 'T', 'E', 'B', 'F', 'J', 'V', 'W', 'G']
const NAME_ALPHABET = ['a', 'A', '0', '_', '$', '-', '.', ':']

/** naming positions: name -> template source (with a use of the name where it is a variable) */
const NAME_POSITIONS = [
  ['tag', (n) => `<${n}/>`],
  ['tag-paired', (n) => `<${n}>x</${n}>`],
  ['attribute-static', (n) => `<a ${n}="v"/>`],
  ['attribute-dynamic', (n) => `<a ${n}="{{x}}"/>`],
  ['attribute-valueless', (n) => `<a ${n}/>`],
  ['data-hyphen', (n) => `<a data-${n}="{{x}}"/>`],
  ['data-colon', (n) => `<a data:${n}="{{x}}"/>`],
  ['mark', (n) => `<a mark:${n}="{{x}}"/>`],
  ['bind', (n) => `<a bind:${n}="{{x}}"/><a catch:${n}="h"/>`],
  ['bind-legacy', (n) => `<a bind${n}="{{x}}"/><a on${n}="h"/>`],
  ['model', (n) => `<a model:${n}="{{x}}"/>`],
  ['change', (n) => `<a change:${n}="{{m.f}}"/><wxs module="m">exports.f=1</wxs>`],
  ['worklet', (n) => `<a worklet:${n}="h"/>`],
  ['generic', (n) => `<a generic:${n}="c"/>`],
  ['extra-attr', (n) => `<a extra-attr:${n}="v"/>`],
  ['class-colon', (n) => `<a class:${n}="{{x}}"/><a class:${n}/>`],
  ['style-colon', (n) => `<a style:${n}="{{x}}"/><a style:${n}="v"/>`],
  ['slot-value', (n) => `<a><b slot:${n}>{{x}}</b></a>`],
  ['slot-value-used', (n) => `<a><b slot:${n}>{{${n}}}</b></a>`],
  ['slot-value-alias', (n) => `<a><b slot:v="${n}">{{${n}}}</b></a>`],
  ['slot-element-value', (n) => `<slot ${n}="{{x}}"/><slot name="${n}"/><slot name="{{x}}" ${n}="s"/>`],
  ['for-item', (n) => `<a wx:for="{{l}}" wx:for-item="${n}">{{${n}}}</a>`],
  ['for-index', (n) => `<a wx:for="{{l}}" wx:for-index="${n}">{{${n}}}</a>`],
  ['for-key', (n) => `<a wx:for="{{l}}" wx:key="${n}">{{item}}</a>`],
  ['wxs-module-inline', (n) => `<wxs module="${n}">exports.f = 1</wxs><a b="{{${n}.f}}" bind:t="{{${n}.f}}"/>`],
  ['wxs-module-src', (n) => `<wxs module="${n}" src="s"/><a b="{{${n}.f}}"/>`],
  ['template-name', (n) => `<template name="${n}">x</template><template is="${n}"/>`],
  ['template-is-dynamic', (n) => `<template is="{{x}}${n}"/>`],
  ['object-key', (n) => `<a b="{{ {${n}: 1} }}"/>`],
  ['static-member', (n) => `<a b="{{ x.${n} }}" model:c="{{ x.${n} }}"/>`],
  ['identifier', (n) => `<a b="{{ ${n} }}" model:c="{{ ${n} }}">{{ ${n} }}</a>`],
  ['template-data', (n) => `<template is="t" data="{{ ${n}: 1 }}"/>`],
  ['template-data-shorthand', (n) => `<template is="t" data="{{ ${n} }}"/>`],
  ['id-slot-class-style', (n) => `<a id="${n}" slot="${n}" class="${n}" style="${n}"/>`],
  ['wx-directive', (n) => `<a wx:${n}="{{x}}"/>`],
  ['reference-src', (n) => `<include src="${n}"/><import src="${n}"/><wxs module="m" src="${n}"/>`],
  ['let-var', (n) => `<a let:${n}="{{x}}">{{${n}}}</a>`],
]

const PATH_ALPHABET = ['a', '/', '.', "'", '"', '\\', '\n', ' ', 'é', '`', '$', '{', '<', '#', '\r', '*']
/** a file at path p (with an inline script, a reference to itself and an external script at the same path) */
function pathJob(p) {
  return {
    files: [[p, `<wxs module="m">exports.f = 1</wxs><wxs module="g" src="${p.replace(/[&"<]/g, (c) => '&#' + c.charCodeAt(0) + ';')}"/><a b="{{m.f}}" bind:t="{{g.f}}" change:c="{{m.f}}"/><template name="t">x</template>`]],
    scripts: [[p, 'exports.f = 1']],
  }
}

const LITERAL_ALPHABET = ["'", '"', '\\', '\n', '\r', '\0', '0', '8', ' ', ' ', '`', '$', '{', '}', '<', '/', '*', 'é', '\u{1f600}', 'u', 'x', '\t', '\u000b', '\u007f', '\u0085', '﻿']
const escAttr = (s) => s.replace(/[&"<{]/g, (c) => '&#' + c.charCodeAt(0) + ';')
const escText = (s) => s.replace(/[&<{]/g, (c) => '&#' + c.charCodeAt(0) + ';')
/** a JS-like string literal as the template expression grammar spells it */
function exprString(s, q) {
  let out = q
  for (const ch of s) {
    if (ch === q || ch === '\\') out += '\\' + ch
    else if (ch === '\n') out += '\\n'
    else if (ch === '\r') out += '\\r'
    else if (ch === '\0') out += '\\0'
    else out += ch
  }
  return out + q
}
const LITERAL_POSITIONS = [
  ['static-text', (s) => `<a>${escText(s)}</a>`],
  ['static-text-raw-braces', (s) => `<a>${s.replace(/[&<]/g, (c) => '&#' + c.charCodeAt(0) + ';')}</a>`],
  ['static-attribute', (s) => `<a b="${escAttr(s)}" class="${escAttr(s)}" style="${escAttr(s)}" id="${escAttr(s)}" data-x="${escAttr(s)}" mark:y="${escAttr(s)}" bind:t="${escAttr(s)}" generic:g="${escAttr(s)}" extra-attr:e="${escAttr(s)}" worklet:w="${escAttr(s)}"/>`],
  ['mixed-value', (s) => `<a b="${escAttr(s)}{{x}}${escAttr(s)}">${escText(s)}{{x}}${escText(s)}</a>`],
  ['expr-string-dq', (s) => `<a b='{{ ${exprString(s, '"').replace(/'/g, '&#39;')} }}'>{{ ${exprString(s, '"').replace(/</g, '\\x3c')} }}</a>`],
  ['expr-string-sq', (s) => `<a b="{{ ${exprString(s, "'").replace(/"/g, '&#34;')} }}">{{ x[${exprString(s, "'").replace(/</g, '\\x3c')}] }}</a>`],
  ['object-key-string', (s) => `<a b="{{ {${exprString(s, "'").replace(/"/g, '&#34;')}: 1} }}"/>`],
  ['slot-name-and-key', (s) => `<slot name="${escAttr(s)}"/><a wx:for="{{l}}" wx:key="${escAttr(s)}"/><template is="${escAttr(s)}"/>`],
  ['comment-and-script-src', (s) => `<!--${s.replace(/-->/g, '')}--><wxs module="m" src="${escAttr(s)}"/>`],
]

const NUMBERS = [...M.NUMBER_LITERALS, '1e999', '-1e999', '0x7fffffffffffffff', '0xffffffffffffffffff', '9223372036854775807', '9223372036854775808', '99999999999999999999999', '1e21', '1e-7', '0.1e-400', '1000000', '123456789012', '00', '08', '010', '0.', '.5', '5.', '1_0', '0b11', '0o17', '1n']

const SCRIPT_BODIES = [
  'exports.f = 1',
  'exports.f = 1;',
  'exports.f = 1 // trailing line comment',
  'exports.f = 1 /* block */',
  'exports.f = 1 /* unbalanced { */',
  '// only a comment',
  '/* only a block comment */',
  '',
  ' ',
  '\n',
  'exports.f = /}/',
  'exports.f = /[/]}/g',
  'exports.f = `}${1}`',
  'exports.f = "}"',
  "exports.f = '\\''",
  'exports.f = function () { return 1 }',
  'exports.f = function () { return 1 }\n',
  'if (exports) { exports.f = 1 }',
  'var a = 1\nexports.f = a',
  'exports.f = 1\r\n',
  'exports.f = 1 // exports.g = 2',
  'exports.f = "</wxs"',
  'exports.f = 1 <!-- html comment',
  '--> exports.f = 1',
  '#!shebang',
  'return',
  'return 1',
  'exports.f = () => ({})',
  'label: for (;;) { break label }',
  'function f() {}',
  'class A {}',
  'let a = 1; const b = 2',
  '"use strict"; exports.f = 1',
  'exports.f = 1 }) ; (function(){',
]

const TOKENS = ['<a', '<b', '>', '/>', '</a>', '</b>', '{{', '}}', 'x', ' ', '"', '=', 'wx:if', 'wx:for', '<!--', '-->', '<template', '<wxs', '<slot', 'name', "'", '&', ';', '.', '(', ')', '[', ']', ':', ',', '?', '+', '1', '<block', '</template>', '</wxs>', 'slot:v', 'is', 'data', 'src', 'module', 'bind:t', 'model:v', '\n']
const TOKENS_CORE = ['<a', '>', '/>', '</a>', '{{', '}}', 'x', ' ', '"', '=', 'wx:if', 'wx:for', '<!--', '<template', '<wxs', '<slot', 'name', '</wxs>', 'slot:v', 'is']

const WELL_FORMED = [
  '<a b="{{x}}" c="s">t{{y}}u</a>',
  '<a wx:if="{{x}}">1</a><b wx:elif="{{y}}">2</b><c wx:else>3</c>',
  '<a wx:for="{{l}}" wx:for-item="i" wx:for-index="j" wx:key="k">{{i}}{{j}}</a>',
  '<template name="t"><a>{{x}}</a></template><template is="t" data="{{x: 1, ...y}}"/>',
  '<wxs module="m">exports.f = function () { return 1 }</wxs><a bind:tap="{{m.f}}" change:p="{{m.f}}">{{m.f()}}</a>',
  '<c><a slot="s" slot:v="w">{{w}}</a></c><slot name="n" p="{{x}}"/>',
  '<a model:v="{{x.y[z]}}" class="p {{q}}" style="r: {{s}}" data-d="{{d}}" mark:m="{{m}}"/>',
  '<include src="i"/><import src="j"/><wxs module="g" src="k"/><block wx:if="{{x}}">b</block>',
  '<a b="{{ c ? [1, , ...d] : {e, f: g(h), ...i} }}">{{ "s" + \'t\' + 1.5e3 }}</a>',
  '<!-- c --><a b=\'{{x}}\'>&lt;&#65;&amp;</a>',
]
const DEVIATION_SYMBOLS = ['<', '>', '/', '"', "'", '{', '}', '=', ' ', '&', ':', '-', '.', '\\', '\n', '\0', '`', '$', ' ', 'é', '(', ')', '[', ']', ',', '?', '#', '*', ';']


// ---------------------------------------------------------------------------------------------
// structural spaces: statement sequences inside every scope kind, expression shapes in every position

const NODE_KINDS = [
  ['text', 't'],
  ['dynamic-text', '{{x}}'],
  ['element', '<a/>'],
  ['element-bound', '<a b="{{x}}">{{y}}</a>'],
  ['element-temp', '<a b="{{c ? p[q[r]] : s}}"/>'],
  ['if', '<a wx:if="{{x}}"/>'],
  ['if-elif-else', '<a wx:if="{{x}}"/><a wx:elif="{{y.z}}"/><a wx:else/>'],
  ['if-temp', '<a wx:if="{{f[k[i]]}}"/>'],
  ['for', '<a wx:for="{{l}}">{{item}}</a>'],
  ['for-if', '<a wx:for="{{l}}" wx:if="{{f[k[index]]}}">{{item}}</a>'],
  ['for-key', '<a wx:for="{{l}}" wx:key="k" model:v="{{item.v}}"/>'],
  ['block-for', '<block wx:for="{{l}}"><a/>{{item}}</block>'],
  ['template-is', '<template is="t"/>'],
  ['template-is-dynamic', '<template is="{{n}}" data="{{a, ...b, c}}"/>'],
  ['include', '<include src="i"/>'],
  ['slot', '<slot name="{{n}}" v="{{x}}"/>'],
  ['slot-value-use', '<a slot:v>{{v}}</a>'],
  ['slot-value-alias', '<a slot:v="w" slot:u>{{w}}{{u}}</a>'],
  ['comment', '<!-- c -->'],
  ['nested-component', '<c><a slot:v>{{v}}</a><b wx:if="{{m}}"/></c>'],
]
const CONTAINERS = [
  ['top', (b) => b],
  ['element', (b) => `<p>${b}</p>`],
  ['block', (b) => `<block>${b}</block>`],
  ['block-for', (b) => `<block wx:for="{{list}}">${b}</block>`],
  ['element-for', (b) => `<p wx:for="{{list}}" wx:for-item="it">${b}</p>`],
  ['if-branch', (b) => `<block wx:if="{{c}}">${b}</block><block wx:else>${b}</block>`],
  ['slot-scope', (b) => `<comp><q slot:sv>{{sv}}</q>${b}</comp>`],
  ['template-definition', (b) => `<template name="d">${b}</template>`],
  ['nested-for', (b) => `<block wx:for="{{list}}"><block wx:for="{{item}}" wx:for-item="j">${b}</block></block>`],
]
function structureCases(thorough) {
  const out = []
  const seqs = []
  for (const a of NODE_KINDS) { seqs.push([a]); for (const b of NODE_KINDS) { seqs.push([a, b]); if (thorough) for (const c of NODE_KINDS) seqs.push([a, b, c]) } }
  for (const [cn, cf] of CONTAINERS) for (const seq of seqs) {
    out.push({ group: 'structure', name: `${cn}|${seq.map((x) => x[0]).join(' ')}`, make: () => ({ files: [['m', cf(seq.map((x) => x[1]).join(''))], ['i', 'I{{x}}']], scripts: [] }) })
  }
  return out
}

/** object and array literals: every sequence of up to 3 (quick) / 4 (thorough) entries over the entry kinds */
function containerLiterals(thorough) {
  const objEntries = [['key-data', (i) => `k${i}: d${i}`], ['key-const', (i) => `k${i}: 1`], ['shorthand', (i) => `s${i}`], ['spread', (i) => `...p${i}`], ['key-string', (i) => `'q${i}': d${i}.e`], ['spread-constant', () => '...null'], ['key-proto', (i) => `__proto__: d${i}`], ['spread-literal', (i) => `...{c${i}: 1}`]]
  const arrEntries = [['data', (i) => `d${i}`], ['const', () => '1'], ['hole', () => ''], ['spread', (i) => `...p${i}`], ['member', (i) => `d${i}.e[0]`], ['spread-literal', () => '...[1]']]
  const seqs = (entries, max) => { const out = []; const rec = (cur) => { if (cur.length) out.push(cur); if (cur.length === max) return; for (const e of entries) rec([...cur, e]) }; rec([]); return out }
  const out = []
  const max = thorough ? 4 : 3
  for (const seq of seqs(objEntries, max)) {
    const body = seq.map((e, i) => e[1](i)).join(', ')
    const n = seq.map((e) => e[0]).join(',')
    out.push({ group: 'expression', name: `object|${n}`, make: () => ({ files: [['m', `<a b="{{ {${body}} }}" model:c="{{ {${body}}.k0 }}">{{ {${body}} }}</a><template is="t" data="{{ ${body} }}"/><a wx:if="{{ {${body}} }}" wx:for="{{ {${body}} }}"/><slot v="{{ {${body}} }}"/>`]], scripts: [] }) })
  }
  for (const seq of seqs(arrEntries, max)) {
    const body = seq.map((e, i) => e[1](i)).join(', ')
    const n = seq.map((e) => e[0]).join(',')
    out.push({ group: 'expression', name: `array|${n}`, make: () => ({ files: [['m', `<a b="{{ [${body}] }}" model:c="{{ [${body}][0] }}">{{ [${body}] }}</a><template is="t" data="{{ k: [${body}] }}"/><a wx:if="{{ [${body}] }}" wx:for="{{ [${body}] }}"/><slot v="{{ [${body}] }}"/><a bind:t="{{ f(${body}) }}"/>`]], scripts: [] }) })
  }
  return out
}

function expressionCases(thorough) {
  const out = []
  const shapes = M.shapes(2)
  const q = (s) => s.replace(/"/g, '&#34;')
  shapes.forEach((e) => {
    const s = M.printMin(e)
    out.push({ group: 'expression', name: `shape|${s}`, make: () => ({ files: [['m', `<wxs module="m">exports.f = 1</wxs><a b="{{ ${q(s)} }}" model:c="{{ ${q(s)} }}" bind:t="{{ ${q(s)} }}" change:d="{{ ${q(s)} }}" class="p {{ ${q(s)} }}" data-e="{{ ${q(s)} }}">{{ ${s.replace(/</g, '< ')} }}</a><a wx:if="{{ ${q(s)} }}" wx:for="{{ ${q(s)} }}" wx:key="k"/><template is="{{ ${q(s)} }}" data="{{ k: ${q(s)} }}"/><slot name="{{ ${q(s)} }}" v="{{ ${q(s)} }}"/>`]], scripts: [] }) })
  })
  return out
}

function modelCorpusCases(thorough) {
  const out = []
  for (const c of [...G.corpus(thorough), ...SG.corpus(thorough ? 2 : 1)]) {
    out.push({ group: 'corpus', name: `corpus|${c.name}`, make: () => ({ files: [['d/m', T.print(c.main).text], ...Object.keys(c.files || {}).map((p) => [p, T.print(c.files[p]).text])], scripts: Object.keys(c.scripts || {}).map((p) => [p, c.scripts[p]]) }) })
  }
  return out
}

function sizedTemplates(thorough) {
  const sizes = thorough ? [1, 30, 2300, 2800, 10000, 60000, 250000] : [1, 30, 2300, 2800, 10000]
  const kinds = [
    ['element-children', (i) => '<a>x</a>'],
    ['if-branch', (i) => '<a wx:if="{{x}}"/>'],
    ['for-loop', (i) => '<a wx:for="{{l}}">{{item}}{{index}}</a>'],
    ['for-loop-model', (i) => '<a wx:for="{{l}}" model:v="{{item.v}}"/>'],
    ['slot-values', (i) => '<a><b slot:v>{{v}}</b></a>'],
    ['private-temporaries', (i) => '<a b="{{c ? d[e] : f[g]}}"/>'],
    ['template-definitions', (i) => `<template name="t${i}"><a>{{x}}</a></template>`],
    ['template-instances', (i) => '<template is="{{x}}" data="{{y}}"/>'],
    ['dynamic-text', (i) => '{{x}}<a/>'],
    ['inline-scripts', (i) => `<wxs module="m${i}">exports.f = 1</wxs>`],
    ['slots', (i) => '<slot name="{{x}}" v="{{y}}"/>'],
    ['mixed', (i) => ['<a>x</a>', '<a wx:if="{{x}}"/>', '<a wx:for="{{l}}">{{item}}</a>', '<a b="{{c ? d[e] : f}}"/>', '<a><b slot:v>{{v}}</b></a>'][i % 5]],
  ]
  const out = []
  for (const [kind, f] of kinds) for (const n of (kind === 'element-children' && !thorough ? [...sizes, 200000] : sizes)) {
    // (quick tier: one kind walks the identifier counter past every reserved word of up to three letters: var is name number 178 875)
    if (kind === 'inline-scripts' && n > 10000) continue
    // (template definitions are looked up linearly while parsing: 2.5*10^5 of them take about an hour; the counter walk needs no more than the others)
    if (kind === 'template-definitions' && n > 60000) continue
    out.push({ group: 'size', name: `${kind} x ${n}`, make: () => { let s = ''; for (let i = 0; i < n; i++) s += f(i); return { files: [['m', s]], scripts: [] } }, big: n >= 2300, n })
  }
  // nested depth: the counter continues in inner function scopes
  for (const d of thorough ? [10, 100, 400] : [10, 100]) {
    out.push({ group: 'size', name: `nested wx:for depth ${d}`, make: () => ({ files: [['m', '<a wx:for="{{l}}">'.repeat(d) + '{{item}}' + '</a>'.repeat(d)]], scripts: [] }), big: true, n: d })
    out.push({ group: 'size', name: `nested elements depth ${d}`, make: () => ({ files: [['m', '<a b="{{c?d:e}}">'.repeat(d) + '{{item}}' + '</a>'.repeat(d)]], scripts: [] }), big: true, n: d })
  }
  return out
}

function allCases(thorough) {
  const out = [...sizedTemplates(thorough), ...structureCases(thorough), ...containerLiterals(thorough), ...expressionCases(thorough), ...modelCorpusCases(thorough)]
  const names = [...strings(NAME_ALPHABET, thorough ? 4 : 3), ...RESERVED]
  for (const [pos, f] of NAME_POSITIONS) for (const n of names) out.push({ group: 'name', name: `${pos}|${n}`, make: () => ({ files: [['m', f(n)]], scripts: [['s', 'exports.f = 1']] }) })
  for (const p of strings(PATH_ALPHABET, thorough ? 3 : 2)) out.push({ group: 'path', name: `path|${JSON.stringify(p)}`, make: () => pathJob(p) })
  for (const s of strings(LITERAL_ALPHABET, thorough ? 3 : 2)) for (const [pos, f] of LITERAL_POSITIONS) out.push({ group: 'literal', name: `${pos}|${JSON.stringify(s)}`, make: () => ({ files: [['m', f(s)]], scripts: [] }) })
  for (const lits of [NUMBERS, M.STRING_LITERALS, M.DQ_STRING_LITERALS, M.KEYWORD_LITERALS]) for (const l of lits) {
    out.push({ group: 'literal', name: `expr-literal|${l}`, make: () => ({ files: [['m', `<a b='{{ ${l.replace(/'/g, '&#39;')} }}' c='{{ -${l.replace(/'/g, '&#39;')} }}' d='{{ x[${l.replace(/'/g, '&#39;')}] }}' model:e='{{ x[${l.replace(/'/g, '&#39;')}] }}'>{{ ${l.replace(/</g, '&lt;')} }}</a>`]], scripts: [] }) })
  }
  for (const b of SCRIPT_BODIES) {
    if (!validBody(b) || /<\/wxs/.test(b)) continue
    out.push({ group: 'script', name: `inline|${JSON.stringify(b)}`, make: () => ({ files: [['m', `<wxs module="m">${b}</wxs><a b="{{m.f}}"/>`]], scripts: [] }) })
    out.push({ group: 'script', name: `external|${JSON.stringify(b)}`, make: () => ({ files: [['m', '<wxs module="m" src="s"/><a b="{{m.f}}"/>']], scripts: [['s', b]] }) })
    out.push({ group: 'script', name: `two-inline|${JSON.stringify(b)}`, make: () => ({ files: [['m', `<wxs module="m">${b}</wxs><wxs module="n">${b}</wxs>`], ['n', `<wxs module="m">${b}</wxs>`]], scripts: [['s', b], ['t', b]] }) })
  }
  // the extra runtime script of a group (documented: valid statements ended by a semicolon), with and without scripts in the group
  // every sequence of <= 2 (thorough: 3) pieces - statements, comments whose own text ends in a semicolon or not, separators - that V8
  // accepts as a script on its own
  const EXTRA_PIECES = ['foo();', 'var e = 1;', '// c', '// c;', '/* c */', '/* c; */;', '\n', ' ', ';', '"use strict";', 'if(x){y()};', 'function f(){};']
  const extras = new Set(['foo(); // trailing\n;', 'var e = 1; // note'])
  const recExtra = (cur, n) => { if (cur) extras.add(cur); if (n === 0) return; for (const p of EXTRA_PIECES) recExtra(cur + p, n - 1) }
  recExtra('', thorough ? 3 : 2)
  for (const extra of extras) {
    if (!extra.trim()) continue
    try { new vm.Script(extra) } catch (e) { continue }
    for (const withScripts of [0, 1, 2]) {
      out.push({ group: 'runtime-extra', name: `extra|${JSON.stringify(extra)}|${withScripts}`, make: () => ({ files: [['m', withScripts === 2 ? '<wxs module="m">exports.f=1</wxs><a b="{{m.f}}"/>' : '<a b="{{x}}"/>']], scripts: withScripts === 1 ? [['s', 'exports.f=1']] : [], extra }) })
    }
    // a second group with an extra runtime script of its own is imported (import_group): both scripts end up in one prelude
    for (const e2 of ['foo();', 'var b1=(\n2);', '// c2', 'if(x){y()};']) {
      out.push({ group: 'runtime-extra', name: `extra|${JSON.stringify(extra)}|imports|${JSON.stringify(e2)}`, make: () => ({ files: [['m', '<a b="{{x}}"/>']], scripts: [], extra, import_extra: e2 }) })
    }
  }
  const toks = thorough ? TOKENS : TOKENS_CORE
  const maxLen = thorough ? 3 : 3
  for (const s of strings(toks, maxLen)) out.push({ group: 'tokens', name: `tokens|${JSON.stringify(s)}`, make: () => ({ files: [['m', s]], scripts: [] }) })
  if (thorough) for (const s of strings(TOKENS_CORE, 4)) if (s.length) out.push({ group: 'tokens', name: `tokens4|${JSON.stringify(s)}`, make: () => ({ files: [['m', s]], scripts: [] }) })
  for (const t of WELL_FORMED) {
    const cps = [...t]
    for (let i = 0; i <= cps.length; i++) {
      if (i < cps.length) out.push({ group: 'deviation', name: `delete@${i}|${t}`, make: () => ({ files: [['m', cps.slice(0, i).join('') + cps.slice(i + 1).join('')]], scripts: [['k', 'exports.f=1']] }), dev: true })
      out.push({ group: 'deviation', name: `truncate@${i}|${t}`, make: () => ({ files: [['m', cps.slice(0, i).join('')]], scripts: [['k', 'exports.f=1']] }), dev: true })
      for (const sym of DEVIATION_SYMBOLS) out.push({ group: 'deviation', name: `insert${JSON.stringify(sym)}@${i}|${t}`, make: () => ({ files: [['m', cps.slice(0, i).join('') + sym + cps.slice(i).join('')]], scripts: [['k', 'exports.f=1']] }), dev: true })
    }
  }
  return out
}

/** premise check on the bodies the PARSER extracted (AST dump), never on our own idea of where a script element ends */
function inlineBodiesValid(res) {
  for (const p of Object.keys(res.ast || {})) {
    const items = res.ast[p].items || res.ast[p]
    if (!Array.isArray(items)) return false
    for (const it of items) if (it.k === 'script-content' && !validBody(it.n)) return false
  }
  return true
}

let runtimeChecked = false
function checkJob(cs, job, res, rep) {
  rep.transitions += 1
  rep.states += 1
  const label = cs.name.length > 200 ? cs.name.slice(0, 200) + '…' : cs.name
  const small = (job.files[0][1].length < 400)
  const shown = small ? JSON.stringify(job.files) + (job.scripts.length ? ' scripts ' + JSON.stringify(job.scripts) : '') : `(${job.files[0][1].length} characters)`
  if (res.panic) {
    rep.violation(`C02|panic|${cs.group}|${String(res.panic.msg).replace(/[0-9]+/g, 'N').slice(0, 60)}`, `the compiler panics instead of emitting (${JSON.stringify(res.panic).slice(0, 200)}) on ${shown}`, { engine: 'c02', case: cs.name, group: cs.group })
    return
  }
  // premise of the property: inline script bodies are valid JavaScript
  if (!inlineBodiesValid(res)) { rep.count('skipped:inline-script-body-not-valid-javascript'); return }
  if (!job.scripts.every((x) => validBody(x[1]))) { rep.count('skipped:script-body-not-valid-javascript'); return }
  const maxLevel = Math.max(0, ...Object.values(res.diags || {}).flat().map((d) => d.level))
  let emitted = 0
  for (const name of Object.keys(res.outputs)) {
    if (name === 'runtime' && !job.extra) { if (runtimeChecked) continue; runtimeChecked = true } // (the prelude only varies with the extra runtime script)
    const o = res.outputs[name]
    if (o.ok === undefined) { rep.count('emit-declined:' + name.split(':')[0]); continue }
    emitted += 1
    rep.evaluations += 2
    const bad = parses(o.ok)
    for (const [mode, err] of bad) {
      const kind = name.split(':')[0]
      rep.violation(`C02|${cs.group}|${cs.group === 'name' || cs.group === 'literal' ? cs.name.split('|')[0] : cs.group === 'size' ? cs.name.split(' x ')[0] : ''}|${kind}|${err.slice(0, 50)}`,
        `${name} does not parse (${mode}): ${err} — case ${label}, input ${shown}${o.ok.length < 1500 ? ', artefact ' + JSON.stringify(o.ok) : ''}`, { engine: 'c02', case: cs.name, group: cs.group })
    }
    rep.outcome([cs.group, name.split(':')[0], bad.length, maxLevel])
  }
  if (maxLevel >= 3) rep.nontrivialCase(cs.name)
  if (rep.transitions % 997 === 0) rep.sample({ case: label, input: small ? job.files : undefined, diagnostics_max_level: maxLevel, artefacts: emitted })
}

function runShard(info, thorough) {
  const rep = new C.Report()
  const all = allCases(thorough)
  // big templates first, spread over the workers
  const mine = all.filter((_, i) => i % info.of === info.shard)
  const WANT = ['gen', 'groups', 'wx', 'runtime', 'ast']
  let batch = []
  const flush = () => {
    if (!batch.length) return
    const jobs = batch.map((cs, i) => Object.assign({ id: i, want: cs.big ? WANT.slice(0, 4) : WANT }, cs.make()))
    const res = C.compileBatch(jobs, 1)
    batch.forEach((cs, i) => checkJob(cs, jobs[i], res[i], rep))
    batch = []
  }
  for (const cs of mine) {
    if (cs.big) { flush(); batch.push(cs); flush(); continue }
    batch.push(cs)
    if (batch.length >= 400) flush()
  }
  flush()
  return rep
}

function replayOne(rec) {
  for (const thorough of [false, true]) {
    const cs = allCases(thorough).find((c) => c.name === rec.case)
    if (!cs) continue
    const job = Object.assign({ id: 0, want: cs.big ? ['gen', 'groups', 'wx', 'runtime'] : ['gen', 'groups', 'wx', 'runtime', 'ast'] }, cs.make())
    const res = C.compileBatch([job], 1)[0]
    const rep = new C.Report()
    checkJob(cs, job, res, rep)
    const v = [...rep.violations.values()].map((x) => x.what.slice(0, 300))
    return { deterministic: true, failure: v.length ? v : null }
  }
  return { deterministic: true, failure: null, note: 'case no longer exists' }
}

async function main() {
  const replay = C.argAfter('--replay', null)
  if (replay) { console.log(JSON.stringify(replayOne(JSON.parse(require('fs').readFileSync(replay, 'utf8'))))); return }
  const thorough = C.argAfter('--tier', 'quick') === 'thorough'
  const info = C.shardInfo()
  if (info) {
    const rep = runShard(info, thorough)
    require('fs').writeFileSync(info.partial, JSON.stringify(rep.toPartial()))
    return
  }
  const rep = await C.runSharded(__filename, ['--tier', thorough ? 'thorough' : 'quick'])
  const cases = allCases(thorough)
  const groups = {}
  for (const c of cases) groups[c.group] = (groups[c.group] || 0) + 1
  const res = rep.toResult('C02',
    'every artefact (per-template generator object, all-templates bundle, MiniProgram bundle, runtime prelude, globals export, script export) of every case must be accepted by V8 (vm.Script) in sloppy and in strict mode. Cases: (size) 12 declaration-site kinds x sizes up to 10^4 (quick) / 2.5*10^5 (thorough) nodes and nesting depth up to 100 / 400 — each large template walks the identifier counter through every value below its size; (name) every string of length <= 3 (quick) / 4 (thorough) over {a A 0 _ $ - . :} and 60 reserved / helper names in 37 naming positions; (path) every template / script path of length <= 2 / 3 over 16 characters incl. quotes, backslash, line terminators, #; (literal) every string of length <= 2 / 3 over 26 characters in 9 literal positions, and the number / string / keyword literal pools; (script) 34 script bodies with awkward endings, inline, external and several per file; (tokens) every token string of length <= 3 over 20 (quick) / 44 (thorough) template tokens and <= 4 over 20; (deviation) every single deletion, truncation and insertion of 29 symbols at every position of 10 well-formed templates. Cases whose inline script body is not valid JavaScript are outside the property and skipped. non-trivial = the template has an Error-level diagnostic',
    Object.assign({ cases: cases.length }, groups),
    true,
    ['V8 (node) is the JavaScript parser; early errors inside nested functions are reported by vm.Script', 'an artefact that parses only as a parenthesised expression counts as valid (it is used as one)'],
    {})
  C.writeResult(C.argAfter('--out', C.WORK + '/C02.result.json'), res)
}
main().catch((e) => { console.error(e); process.exit(3) })
