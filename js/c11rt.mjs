// C11 (second engine) — the model paths handed to the REAL runtime stay right through update histories.
//
// The first engine (c11.js) evaluates get-put on the emitted paths at creation and after a binding-map update, on the
// recording runtime. Here the real TypeScript runtime holds the listeners: after every history of data updates, every
// `model:` listener of every native element is invoked with a sentinel (on a replica of its own), and the law is
// checked on the instance itself: if the write changed the data, the binding must now deliver the sentinel.
import { createRequire } from 'node:module'
import { fileURLToPath } from 'node:url'
import fs from 'node:fs'
import * as D from './rt_real/driver.mjs'

const require = createRequire(import.meta.url)
const C = require('./lib/common.js')
const NODE22 = process.execPath
const HOOKS = fileURLToPath(new URL('./rt_real/hooks.mjs', import.meta.url))
const MAIN = 'm'
const SENT = 'SENTINEL'

const clone = (v) => (v === null || typeof v !== 'object' ? v : Array.isArray(v) ? v.map(clone) : Object.fromEntries(Object.keys(v).map((k) => [k, clone(v[k])])))
const key = (v) => JSON.stringify(v, (k, x) => (x === undefined ? '__u__' : x))

const item = (k) => ({ k, v: 'v' + k, o: { p: 'p' + k } })
const INITIAL = {
  list: [item(1), item(2), item(3)], prim: ['x', 'y', 'z'], other: [item(8), item(9)],
  a: { b: 'AB', x: 'AX' }, b: { y: 'BY' }, c: 1, sel: 0, n: 'b',
  rows: [['r00', 'r01'], ['r10', 'r11']],
  outer: [{ k: 1, inner: [{ w: 'w00' }, { w: 'w01' }] }, { k: 2, inner: [{ w: 'w10' }] }],
}

/** templates: [name, source]; every element v carries one model: binding named val */
function templates() {
  const out = []
  const top = ['a.b', 'a[n]', "a['x']", 'c ? a.x : b.y', 'c ? a.b : 1 + 1', '(c ? a : b).y', 'rows[sel][0]', 'rows[1][sel]', 'list[sel].v', 'list[0].o.p', 'prim[sel]', 'a.b + 1', 'sel']
  for (const e of top) out.push([`top|${e}`, `<v model:val="{{ ${e} }}"/>`])
  const lists = [
    ['for', 'wx:for="{{list}}"'], ['for-keyed', 'wx:for="{{list}}" wx:key="k"'], ['for-cond', 'wx:for="{{ c ? list : other }}" wx:key="k"'], ['for-cond-literal', 'wx:for="{{ c ? list : [1, 2] }}"'],
    ['for-member', 'wx:for="{{ outer[0].inner }}"'],
  ]
  const items = ['item.v', 'item.o.p', "item['v']", 'c ? item.v : a.b', '(c ? item : a).v', 'item.v + 1', 'index']
  for (const [ln, la] of lists) for (const e of items) {
    const ee = ln === 'for-member' ? e.replace(/\.v\b/g, '.w').replace("['v']", "['w']").replace('.o.p', '.w') : e
    out.push([`${ln}|${ee}`, `<block ${la}><v model:val="{{ ${ee} }}"/></block>`])
    out.push([`${ln}|${ee}|on-the-loop-element`, `<v ${la} model:val="{{ ${ee} }}"/>`])
  }
  for (const [ln, la] of [['prim', 'wx:for="{{prim}}"'], ['prim-keyed', 'wx:for="{{prim}}" wx:key="*this"'], ['row', 'wx:for="{{ rows[sel] }}"']]) out.push([`${ln}|item`, `<block ${la}><v model:val="{{ item }}"/></block>`])
  // nested loops: the inner item path extends the outer one
  out.push(['nested|item.w', '<block wx:for="{{outer}}" wx:for-item="it" wx:for-index="oi"><v wx:for="{{it.inner}}" model:val="{{ item.w }}"/></block>'])
  out.push(['nested-keyed|item.w', '<block wx:for="{{outer}}" wx:key="k" wx:for-item="it" wx:for-index="oi"><v wx:for="{{it.inner}}" model:val="{{ item.w }}"/></block>'])
  out.push(['nested-rows|item', '<block wx:for="{{rows}}" wx:for-item="row"><v wx:for="{{row}}" model:val="{{ item }}"/></block>'])
  // the same bindings on a child COMPONENT (its property val; the runtime keeps a listener per property there)
  for (const e of ['a.b', 'c ? a.x : b.y', 'c ? a.b : 1 + 1', 'list[sel].v']) out.push([`component|${e}`, `<k model:val="{{ ${e} }}"/>`])
  for (const [ln, la] of [['for-keyed', 'wx:for="{{list}}" wx:key="k"'], ['for-cond-literal', 'wx:for="{{ c ? prim : [7, 8] }}"']]) out.push([`component|${ln}|item`, `<block ${la}><k model:val="{{ ${ln === 'for-keyed' ? 'item.v' : 'item'} }}"/></block>`])
  // a model: binding inside a template definition: its path is relative to the data handed to the template
  out.push(['template-body|shorthand', '<template name="t"><v model:val="{{ sel }}"/></template><template is="t" data="{{ sel }}"/>'])
  out.push(['template-body|renamed', '<template name="t"><v model:val="{{ w }}"/></template><template is="t" data="{{ w: a.b }}"/>'])
  out.push(['template-body|member', '<template name="t"><v model:val="{{ o.b }}"/></template><template is="t" data="{{ o: a }}"/>'])
  // several bindings in one template (a binding-map update of one field must not disturb the others)
  out.push(['several', '<v model:val="{{ a.b }}"/><v model:val="{{ c ? a.x : b.y }}"/><block wx:for="{{list}}" wx:key="k"><v model:val="{{ item.v }}"/></block>'])
  return out
}

/** transitions: {label, ops:[{path,value}|{path,splice}]} */
function transitions(data) {
  const out = []
  const set = (label, path, value) => out.push({ label, ops: [{ path, value }] })
  set('c = !c', ['c'], data.c ? 0 : 1)
  set('sel = 1 - sel', ['sel'], data.sel ? 0 : 1)
  set("n = n === 'b' ? 'x' : 'b'", ['n'], data.n === 'b' ? 'x' : 'b')
  set('a = {…}', ['a'], { b: 'AB2', x: 'AX2' })
  set('a.b (exact)', ['a', 'b'], 'AB3')
  for (const [name, fresh] of [['list', item(7)], ['prim', 'w']]) {
    const L = data[name]
    if (!Array.isArray(L)) continue
    out.push({ label: `${name}: push`, ops: [{ path: [name], splice: [L.length, 0, [fresh]] }] })
    out.push({ label: `${name}: unshift`, ops: [{ path: [name], splice: [0, 0, [fresh]] }] })
    if (L.length) {
      out.push({ label: `${name}: shift`, ops: [{ path: [name], splice: [0, 1, []] }] })
      out.push({ label: `${name}: pop`, ops: [{ path: [name], splice: [L.length - 1, 1, []] }] })
    }
    if (L.length >= 2) {
      out.push({ label: `${name}: splice in the middle`, ops: [{ path: [name], splice: [1, 1, [fresh, clone(fresh)]] }] })
      set(`${name}: reverse (whole list)`, [name], L.slice().reverse())
      set(`${name}: swap 0 and 1 (whole list)`, [name], [L[1], L[0], ...L.slice(2)])
      out.push({ label: `${name}: swap by two item writes`, ops: [{ path: [name, 0], value: clone(L[1]) }, { path: [name, 1], value: clone(L[0]) }] })
    }
  }
  if (Array.isArray(data.outer) && data.outer.length) {
    out.push({ label: 'outer: unshift', ops: [{ path: ['outer'], splice: [0, 0, [{ k: 9, inner: [{ w: 'n0' }] }]] }] })
    out.push({ label: 'outer: shift', ops: [{ path: ['outer'], splice: [0, 1, []] }] })
    set('outer: reverse', ['outer'], data.outer.slice().reverse())
    if (Array.isArray(data.outer[0].inner)) out.push({ label: 'outer[0].inner: unshift', ops: [{ path: ['outer', 0, 'inner'], splice: [0, 0, [{ w: 'n1' }]] }] })
  }
  if (Array.isArray(data.rows)) {
    out.push({ label: 'rows: unshift', ops: [{ path: ['rows'], splice: [0, 0, [['n0', 'n1']]] }] })
    out.push({ label: 'rows[0]: unshift', ops: [{ path: ['rows', 0], splice: [0, 0, ['n2']] }] })
  }
  return out
}

function applyToInstance(comp, t) {
  comp.groupUpdates(() => {
    for (const op of t.ops) {
      if (op.splice) comp.spliceArrayDataOnPath(op.path, op.splice[0], op.splice[1], clone(op.splice[2]))
      else comp.replaceDataOnPath(op.path, clone(op.value))
    }
  })
}

function modelElements(node, out = []) {
  for (const n of node.childNodes || []) {
    if ((n.is === 'v' || n.tagName === 'v') && typeof n.getModelBindingListeners === 'function') out.push(n)
    else if (n instanceof D.ge.Component && n.is === 'k') out.push(n)
    modelElements(n, out)
  }
  return out
}
const isComp = (el) => el instanceof D.ge.Component
const attrOf = (el, name) => { if (isComp(el)) return el.data[name]; const a = (el.attributes || []).find((x) => x.name === name); return a ? a.value : undefined }

/** run one history, then probe the listener of element number j; returns a problem text or null */
function probe(bundle, mode, history, j) {
  const comp = D.create(bundle, MAIN, clone(INITIAL), mode)
  for (const t of history) applyToInstance(comp, t)
  const els = modelElements(comp.shadowRoot)
  const el = els[j]
  if (!el) return { done: true }
  const before = key(comp.data)
  const shown = attrOf(el, 'val')
  if (isComp(el)) {
    // a component reports a change of its property from inside: its own setData
    try { el.setData({ val: SENT }) } catch (e) { return { count: els.length, problem: `setData of the child throws ${String(e).slice(0, 120)}` } }
  } else {
    const listener = el.getModelBindingListeners().val
    if (!listener) return { count: els.length, listener: false }
    try { listener(SENT) } catch (e) { return { count: els.length, problem: `the listener throws ${String(e).slice(0, 120)}` } }
  }
  const after = key(comp.data)
  if (after === before) return { count: els.length, listener: true, wrote: false }
  // the write changed the host data: a FRESH instance created with the data as it is now must deliver the sentinel at the
  // same element (get-put on the data, independent of how the running instance refreshes itself), and so must the running one
  const fresh = D.create(bundle, MAIN, clone(comp.data), mode)
  const elF = modelElements(fresh.shadowRoot)[j]
  const nowF = elF ? attrOf(elF, 'val') : undefined
  const el2 = modelElements(comp.shadowRoot)[j]
  const now = el2 ? attrOf(el2, 'val') : undefined
  if (nowF !== SENT || now !== SENT) {
    return { count: els.length, problem: `element #${j} showed ${JSON.stringify(shown)}; a value change reported by it changed the host data to ${after.slice(0, 300)}; with that data the binding delivers ${JSON.stringify(nowF)} in a fresh instance and ${JSON.stringify(now)} in the running one` }
  }
  return { count: els.length, listener: true, wrote: true }
}

function explore(cs, bundle, rep, thorough) {
  const [name, src] = cs
  for (const mode of [undefined, 'virtualTree']) {
    const histories = [[]]
    const t1s = transitions(INITIAL)
    for (const t1 of t1s) {
      histories.push([t1])
      if (!thorough) continue
      let d1 = clone(INITIAL)
      // (the data after t1 decides which second transitions exist)
      const c1 = D.create(bundle, MAIN, clone(INITIAL), mode); try { applyToInstance(c1, t1); d1 = clone(c1.data) } catch (e) { continue }
      for (const t2 of transitions(d1)) histories.push([t1, t2])
    }
    for (const h of histories) {
      let count = 1
      for (let j = 0; j < count && j < 8; j++) {
        let r
        try { r = probe(bundle, mode, h, j) } catch (e) { r = { count: 0, problem: `the history throws ${String(e).slice(0, 160)}` } }
        rep.transitions += 1
        if (r.done) break
        count = r.count
        rep.states += 1
        rep.evaluations += 1
        if (r.wrote) rep.nontrivial += 1
        rep.outcome([name.split('|')[0], mode || 'default', h.length, !!r.listener, !!r.wrote, !!r.problem])
        if (r.problem) {
          // the recorded finding: inside a template definition the path names a field of the template's data and is written to the host data
          const fp = name.startsWith('template-body|') && name !== 'template-body|shorthand' ? 'C11|model-path-inside-template-definition-is-relative-to-the-template-data' : `C11|real-runtime|${name}|${mode || 'default'}`
          rep.violation(fp, `template ${JSON.stringify(src)} (${name}, update mode ${mode || 'default'}): after ${JSON.stringify(h.map((t) => t.label))} ${r.problem}`,
            { engine: 'c11rt', template: name, mode: mode || null, history: h, element: j })
          return
        }
      }
    }
  }
}

function compileAll(list) {
  const jobs = list.map(([, src], i) => ({ id: i, files: src.includes('<k ') ? [[MAIN, src], ['comp/k', '<span>{{val}}</span>']] : [[MAIN, src]], want: ['groups'] }))
  return C.compileBatch(jobs, 1)
}

function runShard(info, thorough) {
  const rep = new C.Report()
  const all = templates()
  const mine = all.filter((_, i) => i % info.of === info.shard)
  const res = compileAll(mine)
  mine.forEach((cs, i) => {
    if (res[i].panic) { rep.violation('C11|compiler-panic|' + cs[0], `the compiler panics on ${JSON.stringify(cs[1])}`, { engine: 'c11rt', template: cs[0], kind: 'panic' }); return }
    let bundle
    try { bundle = D.loadBundle(res[i].outputs.groups.ok) } catch (e) { rep.machineryErrors.push('bundle does not load: ' + cs[0] + ' ' + e); return }
    explore(cs, bundle, rep, thorough)
    rep.nontrivialCase(cs[0])
  })
  return rep
}

function replayOne(rec) {
  const cs = templates().find((t) => t[0] === rec.template)
  if (!cs) return { deterministic: true, failure: null, note: 'template no longer in the corpus' }
  const res = compileAll([cs])[0]
  if (res.panic) return { deterministic: true, failure: 'the compiler panics' }
  const bundle = D.loadBundle(res.outputs.groups.ok)
  const once = () => { try { const r = probe(bundle, rec.mode || undefined, rec.history, rec.element); return r.problem || null } catch (e) { return 'throws ' + String(e).slice(0, 160) } }
  const a = once(); const b = once()
  return { deterministic: a === b, failure: a }
}

async function main() {
  const replay = C.argAfter('--replay', null)
  if (replay) { console.log(JSON.stringify(replayOne(JSON.parse(fs.readFileSync(replay, 'utf8'))))); return }
  const thorough = C.argAfter('--tier', 'quick') === 'thorough'
  const info = C.shardInfo()
  if (info) {
    const rep = runShard(info, thorough)
    fs.writeFileSync(info.partial, JSON.stringify(rep.toPartial()))
    return
  }
  const rep = await C.runSharded(fileURLToPath(import.meta.url), ['--tier', thorough ? 'thorough' : 'quick', '--property', 'C11'], NODE22, ['--no-warnings', '--stack-size=4000', '--import', HOOKS])
  const res = rep.toResult('C11',
    'model paths on the real runtime through update histories: for every template of a model-binding corpus (top-level chains, conditionals, dynamic indices; items of plain, keyed, conditional, member and nested loops; primitives) in both update modes, after every history of data-API transitions (length <= 1 quick / <= 2 thorough; field changes, exact paths, 8 list operations on three lists, outer / inner operations of nested lists) the model listener of every native element is invoked with a sentinel (a child component reports the change by its own setData) on a replica of its own: if the write changes the host data, the binding of that element must deliver the sentinel, in the running instance and in a fresh instance created with the data as it is then. non-trivial = the write changed the data',
    { templates: templates().length, history_depth: thorough ? 2 : 1, update_modes: ['default', 'virtualTree'] }, true,
    ['the real TypeScript runtime through the node 22 loader holds the listeners and performs the writes', 'a listener that does not change the data (no path, not assignable now) is accepted'], {})
  C.writeResult(C.argAfter('--out', C.WORK + '/C11.result.json'), res)
}
main().catch((e) => { console.error(e); process.exit(3) })
