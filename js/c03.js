'use strict'
// C03 — binding expressions evaluate with JavaScript semantics.
// Every expression shape up to the operator depth, printed with minimal parentheses (and two
// more spellings), compiled by the real compiler, executed on the recording runtime, compared
// with V8 evaluating the fully parenthesised reference under every data environment of the pool.

const C = require('./lib/common')
const M = require('./lib/exprmodel')
const RT = require('./lib/rt_record')

const FN = function fn() { return ['called', ...arguments] }
const ITEM = { id: 1, v: 'v' }
// (0.1, 0.2, 0.3, 10 and 1e308: values on which regrouping a product or a sum changes the result)
const POOL = [undefined, null, true, false, 0, -0, 1, -1, 2, NaN, '', 'a', '0', ' ', [], [1, 2, 3], {}, { x: 1, y: 2 }, FN, ITEM, 0.1, 0.2, 0.3, 10, 1e308]
const POOL_NAMES = ['undefined', 'null', 'true', 'false', '0', '-0', '1', '-1', '2', 'NaN', "''", "'a'", "'0'", "' '", '[]', '[1,2,3]', '{}', '{x:1,y:2}', 'function', '{id:1,v:"v"}', '0.1', '0.2', '0.3', '10', '1e308']
const C_VALUES_QUICK = [0, 1, 4, 6, 11, 15, 20, 22] // indices into POOL used for `c` in the quick tier

function same(x, y, depth = 0) {
  if (Object.is(x, y)) return true
  if (typeof x !== typeof y) return false
  // (functions created during evaluation, e.g. by `a.constructor()`, are compared by source text)
  if (typeof x === 'function') return String(x) === String(y)
  if (typeof x !== 'object' || x === null || y === null) return false
  if (depth > 6) return true
  if (Array.isArray(x) !== Array.isArray(y)) return false
  if (Object.getPrototypeOf(x) !== Object.getPrototypeOf(y)) {
    // a null-prototype object vs a plain object is a visible difference
    return false
  }
  if (Array.isArray(x)) {
    if (x.length !== y.length) return false
    for (let i = 0; i < x.length; i++) {
      if ((i in x) !== (i in y)) return false
      if (!same(x[i], y[i], depth + 1)) return false
    }
    return true
  }
  const kx = Object.keys(x)
  const ky = Object.keys(y)
  if (kx.length !== ky.length) return false
  for (let i = 0; i < kx.length; i++) {
    if (kx[i] !== ky[i]) return false
    if (!same(x[kx[i]], y[ky[i]], depth + 1)) return false
  }
  return true
}

function show(v, depth = 0) {
  if (typeof v === 'function') return 'function'
  if (Object.is(v, -0)) return '-0'
  if (typeof v === 'string') return JSON.stringify(v)
  if (typeof v !== 'object' || v === null) return String(v)
  if (depth > 3) return '…'
  if (Array.isArray(v)) { const parts = []; for (let i = 0; i < v.length; i++) parts.push(i in v ? show(v[i], depth + 1) : '<hole>'); return '[' + parts.join(',') + ']' }
  return (Object.getPrototypeOf(v) === null ? 'null-proto' : '') + '{' + Object.keys(v).map((k) => k + ':' + show(v[k], depth + 1)).join(',') + '}'
}

function outcomeOf(f) {
  try { return { v: f() } } catch (e) { return { err: (e && e.constructor && e.constructor.name) || 'Error' } }
}
const sameOutcome = (a, b) => (a.err || b.err ? a.err === b.err : same(a.v, b.v))
const showOutcome = (o) => (o.err ? 'throws ' + o.err : show(o.v))

// ---------------------------------------------------------------------------------------------

/** spellings of one shape */
function spellings(e) {
  const min = M.printMin(e)
  // comments between tokens (not inside string literals)
  let withComments = ''
  let quote = null
  for (let i = 0; i < min.length; i++) {
    const ch = min[i]
    if (quote) { withComments += ch; if (ch === '\\') { withComments += min[++i] } else if (ch === quote) quote = null; continue }
    if (ch === '"' || ch === "'") { quote = ch; withComments += ch; continue }
    // (the comment stands directly against its neighbours - `a*/*c*/b` - unless a neighbour is `/`, which would pair up with it)
    if (ch === ' ') withComments += (min[i - 1] === '/' || min[i + 1] === '/') ? ' /*c*/ ' : '/*c*/'
    else withComments += ch
  }
  return [min, M.printFull(e), withComments]
}

function attrQuote(text) {
  const hasD = text.includes('"')
  const hasS = text.includes("'")
  if (hasD && hasS) return null
  return hasD ? "'" : '"'
}

const PER_FILE = 300

/** compile expression texts -> array of evaluators (data -> outcome) or {diag} when rejected */
function compileTexts(texts, scoped) {
  const jobs = []
  const layout = []
  for (let start = 0; start < texts.length; start += PER_FILE) {
    const part = texts.slice(start, start + PER_FILE)
    let src = ''
    part.forEach((t, k) => {
      const q = attrQuote(t)
      if (q === null) { layout.push(null); src += '\n'; return }
      // (a literal may contain a line break: diagnostics are attributed by the lines the template occupies)
      const firstLine = src.split('\n').length - 1
      layout.push({ job: jobs.length, name: 't' + k, firstLine, lastLine: firstLine + t.split('\n').length - 1 })
      // scoped: the names a, b, c are the items of three nested loops instead of data fields; an outermost loop declares a and b
      // as well (item and index), which the inner loops shadow
      src += scoped === 'cond'
        // the expression as the condition of wx:if and of wx:elif (the generator appends `?<branch index>:` to it): which branch is taken
        ? `<template name="t${k}"><a wx:if=${q}{{ ${t} }}${q} v="T"/><a wx:elif=${q}{{ ${t} }}${q} v="E"/><a wx:else v="F"/></template>\n`
        : scoped
        ? `<template name="t${k}"><block wx:for="{{lz}}" wx:for-item="a" wx:for-index="b"><block wx:for="{{la}}" wx:for-item="a"><block wx:for="{{lb}}" wx:for-item="b"><block wx:for="{{lc}}" wx:for-item="c"><a v=${q}{{ ${t} }}${q}/></block></block></block></block></template>\n`
        : `<template name="t${k}"><a v=${q}{{ ${t} }}${q}/></template>\n`
    })
    jobs.push({ id: jobs.length, files: [['f', src]], want: ['groups'] })
  }
  const res = C.compileBatch(jobs, 1)
  const groups = res.map((r) => {
    if (r.panic) return { panic: r.panic }
    const bad = (r.diags.f || []).filter((d) => d.level >= 3)
    const g = r.outputs.groups && r.outputs.groups.ok
    let G = null
    let loadErr = null
    if (g) { try { G = RT.loadGroups(g, false) } catch (e) { loadErr = String(e) } }
    return { G, bad, loadErr, src: r }
  })
  return layout.map((l, i) => {
    if (l === null) return { skipped: 'both quote kinds' }
    const g = groups[l.job]
    if (g.panic) return { panic: g.panic }
    if (g.loadErr) return { loadErr: g.loadErr }
    // diagnostics are per file: find whether this template's line has one
    const mine = g.bad.filter((d) => d.start[0] >= l.firstLine && d.start[0] <= l.lastLine)
    if (mine.length) return { rejected: mine.map((d) => d.kind) }
    if (g.bad.length && !g.G) return { rejected: ['file rejected'] }
    const proc = g.G.f(l.name)
    if (typeof proc !== 'function') return { rejected: ['template missing'] }
    return {
      eval(data) {
        return outcomeOf(() => {
          const rt = RT.makeRuntime()
          const r = proc(rt.R, true, scoped === true ? { lz: ['shadowed outer item'], la: [data.a], lb: [data.b], lc: [data.c] } : data, undefined)
          let nodes = rt.runChildren(r.C)
          while (nodes.length && nodes[0].t !== 'el') nodes = nodes[0].children
          if (!nodes.length) throw new Error('no element created')
          const a = nodes[0].attrs.find((x) => x[0] === 'attr' && x[1] === 'v')
          if (!a) throw new Error('no attribute delivered')
          return a[2]
        })
      },
    }
  })
}

function envs(names, thorough) {
  // exhaustive over the pool for a and b; c over a reduced list in the quick tier
  const out = []
  const cIdx = thorough ? POOL.map((_, i) => i) : C_VALUES_QUICK
  const useA = names.has('a'), useB = names.has('b'), useC = names.has('c')
  for (let i = 0; i < (useA ? POOL.length : 1); i++) for (let j = 0; j < (useB ? POOL.length : 1); j++) for (const k of (useC ? cIdx : [0])) out.push([i, j, k])
  return out
}
const dataOf = (env) => ({ a: POOL[env[0]], b: POOL[env[1]], c: POOL[env[2]] })
const envText = (env, names) => ['a', 'b', 'c'].filter((n) => names.has(n)).map((n, _) => n + '=' + POOL_NAMES[env['abc'.indexOf(n)]]).join(' ')

const kindOf = (exp, got) => (exp.err ? 'javascript-throws-' + exp.err : got.err ? 'generated-code-throws-' + got.err : 'different-value')

/**
 * First failing environment of (evaluator, reference) per failure kind (so that a known deviation,
 * e.g. the lenient array spread, cannot hide a different one on the same expression).
 * `onlyKind`: stop at the first failure of that kind.
 */
function failures(ev, ref, names, thorough, reducedEnvs, onlyKind) {
  let list = envs(names, thorough)
  if (reducedEnvs) list = list.filter((e) => C_VALUES_QUICK.includes(e[0]) && C_VALUES_QUICK.includes(e[1]))
  let n = 0
  const byKind = new Map()
  for (const env of list) {
    const data = dataOf(env)
    const flags = {}
    const exp = outcomeOf(() => ref(data, flags))
    const got = ev.eval(data)
    n++
    if (!sameOutcome(exp, got)) {
      // the recorded deviation: spreading a value that is not an array (generated as [].concat)
      let kind = flags.nonArraySpread ? 'lenient-array-spread' : flags.holeySpread && !exp.err && !got.err ? 'spread-keeps-holes' : kindOf(exp, got)
      if (!flags.nonArraySpread && got.err && !exp.err && flags.SITE) {
        // the recorded deviation: a hoisted position (condition of ?:, dynamic index) that JavaScript does not reach
        // (short-circuit, untaken branch) is evaluated by the generated code anyway, and evaluating it throws
        for (let sidx = 0; sidx < flags.SITE.length; sidx++) {
          if (flags.evaluated[sidx]) continue
          const alone = outcomeOf(() => flags.SITE[sidx]())
          if (alone.err && alone.err === got.err) { kind = 'hoisted-position-evaluated-eagerly'; break }
        }
      }
      if (onlyKind && kind !== onlyKind) continue
      if (!byKind.has(kind)) byKind.set(kind, { env, exp, got, kind })
      if (onlyKind) break
    }
  }
  return { n, byKind }
}
function firstFailure(ev, ref, names, thorough, reducedEnvs, onlyKind) {
  const r = failures(ev, ref, names, thorough, reducedEnvs, onlyKind)
  const f = [...r.byKind.values()][0]
  return f ? Object.assign({ n: r.n }, f) : { n: r.n }
}

// shrinking: smaller trees that still fail (same reference-vs-generated disagreement)
function candidates(e) {
  const out = []
  const kids = []
  const rec = (node, rebuild) => {
    // replace `node` by each of its children or by the leaf `a`
    const children = childrenOf(node)
    for (const c of children) out.push(rebuild(c))
    if (node.k !== 'id') out.push(rebuild(M.id('a')))
    // drop one element of a list
    if (node.k === 'arr' && node.items.length > 1) node.items.forEach((_, i) => out.push(rebuild(M.arr(node.items.filter((__, j) => j !== i)))))
    if (node.k === 'obj' && node.fields.length > 1) node.fields.forEach((_, i) => out.push(rebuild(M.obj(node.fields.filter((__, j) => j !== i)))))
    if (node.k === 'call' && node.args.length > 0) node.args.forEach((_, i) => out.push(rebuild(M.call(node.f, node.args.filter((__, j) => j !== i)))))
    children.forEach((c) => rec(c, (x) => rebuild(replaceChild(node, c, x))))
    kids.push(node)
  }
  rec(e, (x) => x)
  return out
}
function childrenOf(n) {
  switch (n.k) {
    case 'un': return [n.e]
    case 'grp': return [n.e]
    case 'bin': return [n.l, n.r]
    case 'cond': return [n.c, n.t, n.f]
    case 'mem': return [n.o]
    case 'idx': return [n.o, n.i]
    case 'call': return [n.f, ...n.args]
    case 'arr': return n.items.filter((i) => !i.hole).map((i) => (i.spread ? i.spread : i))
    case 'obj': return n.fields.filter((f) => !f.short).map((f) => (f.spread ? f.spread : f.value))
    default: return []
  }
}
function replaceChild(n, c, x) {
  const r = (v) => (v === c ? x : v)
  switch (n.k) {
    case 'un': return M.un(n.op, r(n.e))
    case 'grp': return M.grp(r(n.e))
    case 'bin': return M.bin(n.op, r(n.l), r(n.r))
    case 'cond': return M.cond(r(n.c), r(n.t), r(n.f))
    case 'mem': return M.mem(r(n.o), n.name)
    case 'idx': return M.idx(r(n.o), r(n.i))
    case 'call': return M.call(r(n.f), n.args.map(r))
    case 'arr': return M.arr(n.items.map((i) => (i.hole ? i : i.spread ? (i.spread === c ? { spread: x } : i) : r(i))))
    case 'obj': return M.obj(n.fields.map((f) => (f.short ? f : f.spread ? (f.spread === c ? { spread: x } : f) : { key: f.key, value: r(f.value) })))
    default: return n
  }
}

/** rename the free names to a, b, c in order of first appearance (shorthand object keys are left alone) */
function canonicalNames(e) {
  const order = []
  const visit = (n) => {
    if (!n || typeof n !== 'object') return
    if (n.k === 'id') { if (!order.includes(n.name)) order.push(n.name); return }
    if (n.short) return
    for (const c of childrenOf(n)) visit(c)
  }
  if (JSON.stringify(e).includes('"short"')) return e
  visit(e)
  const map = {}
  order.forEach((n, i) => { map[n] = 'abc'[i] })
  const ren = (n) => {
    if (n.k === 'id') return M.id(map[n.name] || n.name)
    let out = n
    for (const c of childrenOf(n)) out = replaceChild(out, c, ren(c))
    return out
  }
  return ren(e)
}

function shrink(e, thorough, kind) {
  let cur = e
  for (let round = 0; round < 12; round++) {
    const cands = candidates(cur).filter((c) => M.printFull(c).length < M.printFull(cur).length)
    if (!cands.length) break
    const texts = cands.map(M.printMin)
    const evs = compileTexts(texts)
    let next = null
    for (let i = 0; i < cands.length; i++) {
      if (!evs[i].eval) continue
      const f = firstFailure(evs[i], M.compileRef(cands[i]), M.freeNames(cands[i]), thorough, false, kind)
      if (f.env) { next = cands[i]; break }
    }
    if (!next) break
    cur = next
  }
  cur = canonicalNames(cur)
  const ev = compileTexts([M.printMin(cur)])[0]
  const f = ev.eval ? firstFailure(ev, M.compileRef(cur), M.freeNames(cur), thorough, false, kind) : {}
  return { e: cur, f }
}

// ---------------------------------------------------------------------------------------------

function literalShapes() {
  const out = []
  for (const t of [...M.NUMBER_LITERALS, ...M.STRING_LITERALS, ...M.DQ_STRING_LITERALS, ...M.KEYWORD_LITERALS]) {
    const l = M.lit(t)
    out.push(l, M.un('-', l), M.un('typeof', l), M.bin('+', l, M.id('a')), M.bin('+', M.id('a'), l), M.idx(M.id('a'), l), M.mem(l, 'length'), M.arr([l]), M.obj([{ key: 'x', value: l }]), M.bin('===', l, l), M.cond(l, M.id('a'), M.id('b')))
  }
  return out
}

/** evaluation order: every guard (short-circuit operators, both branches of ?:, nested twice) around every hoisted position
 *  (condition of ?:, dynamic index) holding a test that can throw or call */
function evaluationOrderShapes() {
  const a = M.id('a'); const b = M.id('b'); const c = M.id('c')
  const tests = [M.bin('instanceof', a, b), M.bin('instanceof', b, c), M.call(b, [a]), M.mem(M.mem(b, 'x'), 'y'), M.un('!', b)]
  const sites = (t) => [M.cond(t, b, c), M.idx(a, t), M.idx(b, t), M.mem(M.cond(t, b, c), 'x')]
  const guards = [(x) => M.bin('&&', a, x), (x) => M.bin('||', a, x), (x) => M.bin('??', a, x), (x) => M.cond(a, x, c), (x) => M.cond(a, c, x), (x) => M.bin('&&', x, a), (x) => M.arr([a, x]), (x) => M.bin('+', a, x)]
  const out = []
  for (const t of tests) for (const sx of sites(t)) {
    for (const g of guards) { out.push(g(sx)); for (const g2 of guards.slice(0, 5)) out.push(g2(g(sx))) }
  }
  return out
}

/** object literals around the name __proto__: the shorthand defines an own property, `__proto__: v` sets the prototype */
function protoShapes() {
  const a = M.id('a')
  return [
    M.obj([{ short: '__proto__' }]),
    M.obj([{ short: 'a' }, { short: '__proto__' }]),
    M.mem(M.obj([{ short: '__proto__' }, { key: 'b', value: a }]), 'b'),
    M.obj([{ key: '__proto__', value: a }]),
    M.mem(M.obj([{ key: '__proto__', value: a }]), 'length'),
    M.obj([{ spread: a }, { short: '__proto__' }]),
    M.call(M.mem(M.obj([{ short: '__proto__' }]), 'hasOwnProperty'), [M.lit("'__proto__'")]),
  ]
}

function allShapes(thorough) {
  return [...M.shapes(thorough ? 3 : 2), ...literalShapes(), ...evaluationOrderShapes(), ...protoShapes()]
}

function runShard(info, thorough) {
  const rep = new C.Report()
  const all = allShapes(thorough)
  const mine = []
  for (let i = info.shard; i < all.length; i += info.of) mine.push(i)
  const CH = 1200
  for (let start = 0; start < mine.length; start += CH) {
    const idxs = mine.slice(start, start + CH)
    // three spellings per shape
    const texts = []
    for (const i of idxs) texts.push(...spellings(all[i]))
    const evs = compileTexts(texts)
    const scopedEvs = compileTexts(idxs.map((i) => M.printMin(all[i])), true)
    const condEvs = compileTexts(idxs.map((i) => M.printMin(all[i])), 'cond')
    idxs.forEach((si, k) => {
      const e = all[si]
      const names = M.freeNames(e)
      let ref
      try { ref = M.compileRef(e) } catch (err) { rep.count('skipped:not-valid-javascript'); return }
      let minimalFailed = false
      const refValue = ref
      for (let v = 0; v < 5; v++) {
        if (v > 0 && minimalFailed) { rep.count('spelling-variants-skipped-after-a-failure'); continue }
        if (v === 3 && names.size === 0) continue
        const ev = v === 4 ? condEvs[k] : v === 3 ? scopedEvs[k] : evs[k * 3 + v]
        const text = v >= 3 ? texts[k * 3] : texts[k * 3 + v]
        // as a condition the expression is observed through the branch taken
        ref = v === 4 ? (data, flags) => (refValue(data, flags) ? 'T' : 'F') : refValue
        rep.transitions += 1
        if (ev.skipped) { rep.count('skipped:' + ev.skipped); continue }
        if (ev.panic) { rep.machineryErrors.push('compiler panicked on ' + text + ': ' + JSON.stringify(ev.panic)); continue }
        if (ev.rejected) {
          rep.count('rejected-by-the-parser')
          // the expression language has no quoted object keys and no surrogate escapes: those two are counted; any
          // other shape of the model is documented syntax, and rejecting it loses the expression
          if (!/\{'[^']*':|\\ud[89ab]/i.test(text) && !/^(file rejected|template missing)$/.test(ev.rejected[0])) rep.violation('C03|well-formed-expression-rejected|' + ev.rejected[0], `the parser rejects {{ ${text} }} with "${ev.rejected[0]}"`, { engine: 'c03', expr: text, kind: 'rejected' })
        }
        if (ev.rejected) { if (v === 0) { rep.count('rejected:' + ev.rejected[0]); if (process.env.C03_DEBUG_REJECT) require('fs').appendFileSync(process.env.C03_DEBUG_REJECT, text + '\t' + ev.rejected[0] + '\n') } continue }
        if (ev.loadErr) {
          // syntactically invalid output: C02's business, but nothing can be evaluated here
          rep.count('generated-code-does-not-load')
          rep.violation('C03|generated-code-does-not-load|' + ev.loadErr.slice(0, 60), `the bundle containing {{ ${text} }} does not load: ${ev.loadErr}`, { engine: 'c03', expr: text, kind: 'load' })
          continue
        }
        rep.states += 1
        const fr = failures(ev, ref, names, thorough, v > 0)
        rep.evaluations += fr.n
        if (names.size > 0) rep.nontrivialCase(text)
        rep.outcome([fr.byKind.size ? 'fail' : 'ok', e.k, e.op || '', names.size])
        if (si % 997 === 0 && v === 0) rep.sample({ expression: text, reference: M.printRef(e), environments: fr.n })
        for (const f of fr.byKind.values()) {
          if (v === 0) minimalFailed = true
          if (f.kind === 'hoisted-position-evaluated-eagerly') {
            rep.violation('C03|hoisted-position-evaluated-eagerly', `a condition of ?: or a dynamic index that JavaScript does not reach is evaluated anyway: {{ ${text} }} with ${envText(f.env, names)} gives ${showOutcome(f.got)}, JavaScript gives ${showOutcome(f.exp)}`, { engine: 'c03', expr: text, tree: e, env: f.env, original: text })
            continue
          }
          if (JSON.stringify(e).includes('"short":"__proto__"')) {
            rep.violation('C03|proto-shorthand', `the shorthand {__proto__} sets the prototype instead of defining an own property: {{ ${text} }} with ${envText(f.env, names)} gives ${showOutcome(f.got)}, JavaScript gives ${showOutcome(f.exp)}`, { engine: 'c03', expr: text, tree: e, env: f.env, original: text })
            continue
          }
          if (f.kind === 'spread-keeps-holes') {
            rep.violation('C03|spread-keeps-holes', `spread of an array with holes: {{ ${text} }} with ${envText(f.env, names)} gives ${showOutcome(f.got)}, JavaScript gives ${showOutcome(f.exp)}`, { engine: 'c03', expr: text, tree: e, env: f.env, original: text })
            continue
          }
          if (f.kind === 'lenient-array-spread') {
            rep.violation('C03|lenient-array-spread', `array spread of a value that is not an array: {{ ${text} }} with ${envText(f.env, names)} gives ${showOutcome(f.got)}, JavaScript gives ${showOutcome(f.exp)}`, { engine: 'c03', expr: text, tree: e, env: f.env, original: text })
            continue
          }
          if (v === 4) {
            rep.violation(`C03|as-condition:${M.printMin(e)}|${envText(f.env, names)}`, `wx:if="{{ ${text} }}" / wx:elif="{{ ${text} }}" with ${envText(f.env, names)}: the generated code takes branch ${showOutcome(f.got)}, JavaScript's value of the expression selects ${showOutcome(f.exp)} (T = if, E = elif, F = else)`, { engine: 'c03', expr: text, tree: e, env: f.env, original: text, cond: true })
            continue
          }
          const s = shrink(e, thorough, f.kind)
          const se = s.f && s.f.env ? s : { e, f }
          const sn = M.freeNames(se.e)
          const fp = `C03|${v === 0 ? '' : ['', 'fully-parenthesised:', 'with-comments:', 'names-are-loop-items:', 'as-condition:'][v]}${M.printMin(se.e)}|${envText(se.f.env, sn)}`
          rep.violation(fp, `{{ ${M.printMin(se.e)} }} with ${envText(se.f.env, sn)}: generated code gives ${showOutcome(se.f.got)}, JavaScript gives ${showOutcome(se.f.exp)} (found on {{ ${text} }})`,
            { engine: 'c03', expr: M.printMin(se.e), tree: se.e, env: se.f.env, original: text, scoped: v === 3 })
          if (v > 0) rep.count('spelling-variant-failures')
        }
      }
    })
  }
  return rep
}

function replayOne(rec) {
  if (rec.kind === 'rejected') {
    const ev = compileTexts([rec.expr], false)[0]
    return { deterministic: true, failure: ev.rejected ? `the parser rejects {{ ${rec.expr} }} with "${ev.rejected[0]}"` : null }
  }
  const e = rec.tree
  const ev = compileTexts([M.printMin(e)], rec.cond ? 'cond' : !!rec.scoped)[0]
  if (!ev.eval) return { deterministic: true, failure: null, note: 'not accepted by the compiler any more' }
  const refValue = M.compileRef(e)
  const ref = rec.cond ? (d, f) => (refValue(d, f) ? 'T' : 'F') : refValue
  const run = () => { const d = dataOf(rec.env); const a = outcomeOf(() => ref(d, {})); const b = ev.eval(d); return [sameOutcome(a, b), showOutcome(a), showOutcome(b)] }
  const r1 = run(); const r2 = run()
  return { deterministic: JSON.stringify(r1) === JSON.stringify(r2), failure: r1[0] ? null : `JavaScript gives ${r1[1]}, generated code gives ${r1[2]}` }
}

async function main() {
  const replay = C.argAfter('--replay', null)
  if (replay) { console.log(JSON.stringify(replayOne(JSON.parse(require('fs').readFileSync(replay, 'utf8'))))); return }
  const thorough = C.argAfter('--tier', 'quick') === 'thorough'
  const info = C.shardInfo()
  if (info) {
    const rep = runShard(info, thorough)
    require('fs').writeFileSync(info.partial, JSON.stringify(rep.toPartial()))
    return
  }
  const rep = await C.runSharded(__filename, ['--tier', thorough ? 'thorough' : 'quick'])
  const res = rep.toResult('C03',
    'every expression tree of operator depth <= d over 6 unary, 23 binary, ?:, 5 member names, index, call (0-2 args), array literals (holes at every position, spreads), object literals (named, string key, spread, shorthand), explicit parentheses, in every operand position; every number / string / keyword literal of the pool in 11 positions; three spellings each (minimal parentheses, fully parenthesised, comments between tokens); every data environment a, b over the 20-value pool, c over 6 (quick) / 20 (thorough) values. non-trivial = the expression has a free name; distinct = distinct expression text',
    { operator_depth: thorough ? 3 : 2, pool: POOL_NAMES, shapes: allShapes(thorough).length },
    true,
    ['V8 evaluates the reference (sloppy mode) and the generated code', 'the reference is the model tree fully parenthesised with null-safe member reads and plain-function calls, nothing else', 'the expression language has no quoted object keys and no surrogate-pair escapes: shapes with those are rejected by the parser and counted; the rejection of any other shape is reported'],
    {})
  C.writeResult(C.argAfter('--out', C.WORK + '/C03.result.json'), res)
}
main().catch((e) => { console.error(e); process.exit(3) })
