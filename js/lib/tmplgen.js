'use strict'
// Enumerable families of well-formed templates (the E-TREE alphabet) and data environments.

const T = require('./tmplmodel')
const M = require('./exprmodel')
const { text, comment, el, block, tdef, tis, include, imp, slot, wxs, A, E } = T
const id = M.id

const X = E(id('x'))
const Y = E(id('y'))

/** text-like leaves */
function leafKinds() {
  return [
    ['text:static', () => text('a')],
    ['text:entities', () => text('<x&y>"\'')],
    ['text:blanks-around', () => text(' a b ')],
    ['text:newlines-around', () => text('\n  a\n')],
    ['text:whitespace-only', () => text(' \n ')],
    ['text:binding', () => text(X)],
    ['text:static+binding', () => text('a', X)],
    ['text:binding+static', () => text(X, 'a')],
    ['text:static+binding+static', () => text('a', X, 'b')],
    ['text:two-bindings', () => text(X, Y)],
    ['text:interleaved', () => text('a', X, 'b', Y, 'c')],
    ['text:blank-between-bindings', () => text(X, ' ', Y)],
    ['text:braces', () => text('{{a}} }} {')],
    // data fields named like members of Object.prototype
    ['text:prototype-named-fields', () => text(E(id('toString')), '/', E(id('constructor')))],
    ['text:backslashes', () => text('C:\\0\\tmp \\d\\07 \\\\0 \\n \\x41 \\u0041')],
    ['text:backslash+binding', () => text('\\0=', X, '\\1')],
    ['text:reference-lengths', () => text('a\tb\u00e9c\u{1f600}d\u{10ffff}e')],
    ['comment', () => comment(' c ')],
  ]
}

/** elements with one feature each */
function elementKinds() {
  const v = (attrs, children) => el('v', attrs, children || [])
  const out = [
    ['el:bare', () => v([])],
    ['el:text-child', () => v([], [text('t')])],
    ['attr:static', () => v([A.plain('p', 's')])],
    ['attr:static-entities', () => v([A.plain('p', 'a"b&c<d\'')])],
    ['attr:static-empty', () => v([A.plain('p', '')])],
    ['attr:static-backslashes', () => v([A.plain('p', '\\d\\07 \\\\0'), A.dataHyphen('k', '\\0'), A.mark('m', 'a\\00'), A.cls('\\0'), A.id('\\09')])],
    ['attr:reference-lengths', () => v([A.plain('p', 'a\tb\u00e9c\u{1f600}d\u{10ffff}e'), A.cls('\u00e9 \tk')])],
    ['attr:binding', () => v([A.plain('p', X)])],
    ['attr:mixed', () => v([A.plain('p', ['a', X, 'b'])])],
    ['attr:two-bindings', () => v([A.plain('p', [X, Y])])],
    ['attr:valueless', () => v([A.plain('hidden')])],
    ['attr:dashed-name', () => v([A.plain('a-b-c', X)])],
    ['attr:upper-name', () => v([A.plain('aB', 's')])],
    ['class:static', () => v([A.cls('c d')])],
    ['class:binding', () => v([A.cls(X)])],
    ['class:mixed', () => v([A.cls(['c ', X])])],
    ['style:static', () => v([A.style('k:v')])],
    ['style:binding', () => v([A.style(X)])],
    ['style:mixed', () => v([A.style(['k:', X])])],
    ['id:static', () => v([A.id('i')])],
    ['id:binding', () => v([A.id(X)])],
    ['slot-attr:static', () => v([A.slot('s')])],
    ['slot-attr:binding', () => v([A.slot(X)])],
    ['data-:static', () => v([A.dataHyphen('k', 's')])],
    ['data-:binding-dashed', () => v([A.dataHyphen('x-y', X)])],
    ['data-:upper', () => v([A.dataHyphen('aB', X)])],
    ['data-:valueless', () => v([A.dataHyphen('k')])],
    ['data::camel', () => v([A.dataColon('xY', X)])],
    ['data::static', () => v([A.dataColon('k', 's')])],
    ['mark:binding', () => v([A.mark('m-n', X)])],
    ['mark:static', () => v([A.mark('m', 's')])],
    ['event:bind', () => v([A.event('bind', 'tap', 'f')])],
    ['event:catch', () => v([A.event('catch', 'tap', 'f')])],
    ['event:mut-bind', () => v([A.event('mut-bind', 'tap', 'f')])],
    ['event:capture-bind', () => v([A.event('capture-bind', 'tap', 'f')])],
    ['event:capture-catch', () => v([A.event('capture-catch', 'tap', 'f')])],
    ['event:capture-mut-bind', () => v([A.event('capture-mut-bind', 'tap', 'f')])],
    ['event:dynamic-handler', () => v([A.event('bind', 't-p', X)])],
    ['event:valueless', () => v([A.event('bind', 'tap')])],
    ['event:legacy', () => v([A.legacyEvent('bindtap', 'f')])],
    ['model:path', () => v([A.model('v-w', E(M.mem(id('a'), 'b')))])],
    ['model:name', () => v([A.model('value', X)])],
    ['change:binding', () => v([A.change('p-q', X)])],
    ['worklet', () => v([A.worklet('w-x', 'f')])],
    ['generic', () => v([A.generic('g-h', 'c')])],
    ['extra-attr', () => v([A.extraAttr('e-f', 'v')])],
    ['component:attr', () => el('k', [A.plain('p', X)])],
    ['component:model', () => el('k', [A.model('val', X)])],
    ['component:attr+model', () => el('k', [A.plain('p', Y), A.model('val', X)])],
    ['component:model-member', () => el('k', [A.model('val', E(M.mem(id('a'), 'b')))])],
    ['component:mixed', () => el('k', [A.plain('p', ['a', X])])],
    // (`style` is a declared property of the child component; class and id are not)
    ['component:dashed-digit-attr', () => el('k', [A.plain('item-2', X), A.plain('p', Y)])],
    ['component:style-property', () => el('k', [A.style(X)])],
    ['component:class+id', () => el('k', [A.cls(X), A.id(Y)])],
    ['attrs:several', () => v([A.plain('p', X), A.cls('c'), A.id('i'), A.dataHyphen('k', Y), A.event('bind', 'tap', 'f')])],
  ]
  // every event prefix x every value form (the flags travel separately from the handler), on an element and on a <slot>
  for (const prefix of ['bind', 'catch', 'mut-bind', 'capture-bind', 'capture-catch', 'capture-mut-bind']) {
    const forms = [['binding', X], ['member-binding', E(M.mem(id('a'), 'b'))], ['valueless', undefined], ['mixed', ['f', X]]]
    for (const [fn, fv] of forms) {
      out.push([`event-x:${prefix}:${fn}`, () => v([A.event(prefix, 'tap', fv)])])
    }
    if (true) for (const [fn, fv] of forms) if (fn !== 'mixed') out.push([`event-x:${prefix}:${fn}@slot`, () => slot('n', [['v', X]], { attrs: [A.event(prefix, 'tap', fv)] })])
    out.push([`event-x:${prefix}:two-events`, () => v([A.event(prefix, 'tap', X), A.event(prefix, 'b-c', 'g')])])
  }
  // the other families x the value forms that the plain cases above leave out
  const fam = [['data-', (val) => A.dataHyphen('k', val)], ['data:', (val) => A.dataColon('k', val)], ['mark', (val) => A.mark('m', val)], ['model', (val) => A.model('v', val)], ['change', (val) => A.change('p', val)], ['id', (val) => A.id(val)], ['slot-attr', (val) => A.slot(val)], ['class', (val) => A.cls(val)], ['style', (val) => A.style(val)]]
  for (const [fname, f] of fam) for (const [fn, fv] of [['mixed', ['a', X, 'b']], ['two-bindings', [X, Y]], ['member-binding', E(M.mem(id('a'), 'b'))]]) out.push([`${fname}-x:${fn}`, () => v([f(fv)])])
  // names in the families that normalise them (dash to camel): every name of up to 4 characters over {a, B, -, 2, _} that
  // starts with a letter and does not end in a hyphen... including hyphens followed by a digit, an underscore or another hyphen
  const nameAlphabet = ['a', 'B', '-', '2', '_']
  const names = []
  const recN = (cur) => { if (cur.length >= 2) names.push(cur); if (cur.length === 4) return; for (const ch of nameAlphabet) recN(cur + ch) }
  recN('a')
  for (const nm of names) {
    // (consecutive hyphens are left out: the compiler's dash_to_camel gives aA for a--a, the runtime's dashToCamelCase a-a;
    //  no document says which one is meant)
    if (nm.endsWith('-') || nm.includes('--')) continue
    // (change: sits on an element of its own: a listener for a property that is also bound on the same element is called by
    //  the real runtime, and the pool values are not functions)
    out.push([`name-x:${nm}`, () => v([A.dataHyphen(nm, X), A.model(nm, Y), A.worklet(nm, 'w'), A.mark(nm, 's'), A.dataColon('q' + nm, 's')], [v([A.change(nm, X)])])])
    out.push([`name-x:${nm}@slot`, () => slot('n', [[nm, X]])])
  }
  // a <slot> element with each family it accepts
  for (const [fname, f] of [['id', (val) => A.id(val)], ['data-', (val) => A.dataHyphen('k-l', val)], ['data:', (val) => A.dataColon('kL', val)], ['mark', (val) => A.mark('m', val)]]) {
    for (const [fn, fv] of [['static', 's'], ['binding', X], ['mixed', ['a', X]]]) {
      out.push([`slot-x:${fname}:${fn}`, () => slot(fn === 'static' ? undefined : 'n', [['v', Y]], { attrs: [f(fv)] })])
      // (alone: nothing else on the element asks for an initialiser)
      out.push([`slot-x:${fname}:${fn}:alone`, () => slot(undefined, [], { attrs: [f(fv)] })])
    }
  }
  return out
}

/** a child node carried by control wrappers */
function wrappable() {
  return [
    ['text', () => [text('t', X)]],
    ['element', () => [el('v', [A.plain('p', X)], [text('t')])]],
    ['two-children', () => [el('v'), text('t')]],
    ['comment+element', () => [comment('c'), el('v')]],
  ]
}

const C0 = E(id('c'))
const D0 = E(id('d'))
const LIST = E(id('list'))

/** control constructs around a body (body: array of nodes) */
function controlKinds() {
  const out = [
    ['block', (b) => [block(b)]],
    ['if:element', (b) => [el('v', [], b, { wxIf: C0 })]],
    ['if:block', (b) => [block(b, { wxIf: C0 })]],
    ['if-else:elements', (b) => [el('v', [], b, { wxIf: C0 }), el('w', [], b, { wxElse: true })]],
    ['if-elif-else:blocks', (b) => [block(b, { wxIf: C0 }), block([text('E1')], { wxElif: D0 }), block([text('E2')], { wxElse: true })]],
    ['if-elif:elements', (b) => [el('v', [], b, { wxIf: C0 }), el('w', [], b, { wxElif: D0 })]],
    ['if-comment-else', (b) => [el('v', [], b, { wxIf: C0 }), comment(' k '), el('w', [], b, { wxElse: true })]],
    ['if-blank-else', (b) => [el('v', [], b, { wxIf: C0 }), text('\n  '), el('w', [], b, { wxElse: true })]],
    ['if:then-sibling', (b) => [el('v', [], b, { wxIf: C0 }), el('s')]],
    ['if:prototype-named-condition', (b) => [el('v', [], b, { wxIf: E(id('toString')) }), el('w', [], [text(E(id('constructor')))], { wxElse: true }), text(E(id('constructor')))]],
    ['if:static-true', (b) => [el('v', [], b, { wxIf: E(M.lit('true')) })]],
    ['for:element', (b) => [el('v', [A.plain('i', E(id('index')))], [...b, text(E(id('item')))], { wxFor: { list: LIST } })]],
    ['for:block', (b) => [block([...b, text(E(id('index')), ':', E(id('item')))], { wxFor: { list: LIST } })]],
    ['for:renamed', (b) => [el('v', [], [...b, text(E(id('p')), E(id('q')))], { wxFor: { list: LIST, item: 'p', index: 'q' } })]],
    ['for:key', (b) => [el('v', [], [...b, text(E(M.mem(id('item'), 'v')))], { wxFor: { list: LIST, key: 'id' } })]],
    ['for:key-this', (b) => [el('v', [], [...b, text(E(id('item')))], { wxFor: { list: LIST, key: '*this' } })]],
    ['for+if', (b) => [el('v', [], [...b, text(E(id('item')))], { wxFor: { list: LIST }, wxIf: E(id('item')) })]],
    ['for+if:block', (b) => [block([...b, text(E(id('index')))], { wxFor: { list: LIST }, wxIf: E(id('index')) })]],
    ['for:spread-list', (b) => [el('v', [], [...b, text(E(M.mem(id('item'), 'v')), E(id('index')))], { wxFor: { list: E(M.arr([{ spread: id('list') }, M.obj([{ key: 'v', value: id('x') }])])) } })]],
    ['for:slot-own-attributes', (b) => [el('c', [], [slot(E(id('item')), [['v', E(id('index'))]], { attrs: [A.mark('m', E(id('item'))), A.dataColon('i', E(id('index'))), A.id(['s', E(id('index'))]), A.event('bind', 'tap', E(id('item'))), A.dataHyphen('j', E(M.arr([id('item'), id('index')])))] }), ...b], { wxFor: { list: LIST } })]],
    ['block-slot+if', (b) => [el('c', [], [block(b, { slot: 's1', wxIf: C0 }), block([text('E')], { slot: X, wxElse: true })])]],
    ['block-slot+elif', (b) => [el('c', [], [block([text('I')], { wxIf: D0 }), block(b, { slot: 's2', wxElif: C0 })])]],
    ['block-slot+for', (b) => [el('c', [], [block([...b, text(E(id('item')))], { slot: E(id('item')), wxFor: { list: LIST } })])]],
    ['block-slot+for-static', (b) => [el('c', [], [block(b, { slot: 's3', wxFor: { list: LIST } })])]],
    ['for:object', (b) => [el('v', [], [...b, text(E(id('index')), ':', E(M.mem(id('item'), 'v')))], { wxFor: { list: E(id('obj')) } })]],
    ['for:object-keyed', (b) => [el('v', [], [...b, text(E(id('index')), ':', E(M.mem(id('item'), 'v')))], { wxFor: { list: E(id('obj')), key: 'id' } })]],
    ['for:object-keyed-index-alone', (b) => [el('v', [A.dataColon('k', E(id('index')))], [...b, text(E(M.mem(id('item'), 'v')))], { wxFor: { list: E(id('obj')), key: 'id' } })]],
    ['for:key-index-alone', (b) => [el('v', [A.dataColon('k', E(id('index')))], [...b, text(E(M.mem(id('item'), 'v')))], { wxFor: { list: LIST, key: 'id' } })]],
    ['for:object-keyed-this', (b) => [block([...b, text(E(id('index')), '=', E(M.mem(id('item'), 'id')))], { wxFor: { list: E(id('obj')), key: '*this' } })]],
    ['for:literal-list', (b) => [el('v', [], [...b, text(E(id('item')))], { wxFor: { list: E(M.arr([id('x'), id('y')])) } })]],
    ['for:number-literal', (b) => [el('v', [], [...b, text(E(id('index')))], { wxFor: { list: E(M.lit('3')) } })]],
    ['for:static-string', (b) => [el('v', [], [...b, text(E(id('item')))], { wxFor: { list: 'ab' } })]],
    ['for:nested-same-names', (b) => [el('v', [A.dataColon('i', E(id('index')))], [el('w', [A.dataColon('i', E(id('index')))], [...b, text(E(id('index')), ':', E(id('item')))], { wxFor: { list: E(id('item')) } })], { wxFor: { list: E(M.arr([id('list'), M.arr([id('x'), id('y')])])) } })]],
    ['for:nested-same-renamed', (b) => [block([block([...b, text(E(id('r')), '/', E(id('q')))], { wxFor: { list: E(id('r')), item: 'r', index: 'q' } })], { wxFor: { list: E(M.arr([id('list'), M.arr([id('x')])])), item: 'r', index: 'q' } })]],
    ['for:nested', (b) => [el('v', [], [el('w', [], [...b, text(E(id('j')), E(id('item')))], { wxFor: { list: E(id('item')), item: 'j' } })], { wxFor: { list: LIST } })]],
    ['template:def+is', (b) => [tdef('t', [...b, text(E(id('x')))]), tis('t', M.obj([{ key: 'x', value: id('y') }]))]],
    ['template:is-no-data', (b) => [tdef('t', [...b, text(E(id('x')))]), tis('t')]],
    // (a template without a data attribute gets an empty object, not a string: `length` is undefined there)
    ['template:is-no-data-reads-length', (b) => [tdef('t', [...b, text('[', E(id('length')), ']')]), tis('t')]],
    ['template:is-shorthand', (b) => [tdef('t', [...b, text(E(id('x')), E(id('y')))]), tis('t', M.obj([{ short: 'x' }, { short: 'y' }]))]],
    // the data attribute written without quotes (one shorthand field; a spread)
    ['template:is-shorthand-unquoted', (b) => [tdef('t', [...b, text('[', E(id('x')), ']')]), tis('t', M.obj([{ short: 'x' }]), { unquotedData: true }), el('v', [A.plain('p', 'after')])]],
    ['template:is-spread-unquoted', (b) => [tdef('t', [...b, text(E(id('b')))]), tis('t', M.obj([{ spread: id('a') }]), { unquotedData: true })]],
    ['template:is-two-spreads', (b) => [tdef('t', [...b, text(E(id('b')), E(M.mem(id('a'), 'v')))]), tis('t', M.obj([{ spread: id('obj') }, { spread: id('a') }]))]],
    ['template:is-spread', (b) => [tdef('t', [...b, text(E(id('b')))]), tis('t', M.obj([{ spread: id('a') }]))]],
    ['template:is-dynamic', (b) => [tdef('t', [...b, text('T')]), tdef('u', [text('U')]), tis(E(id('n')))]],
    ['template:is-missing', (b) => [tdef('t', b), tis('zz')]],
    ['template:is-missing-prototype-name', (b) => [tdef('t', b), tis('valueOf'), tis('toString'), tis('hasOwnProperty')]],
    ['template:named-__proto__', (b) => [tdef('__proto__', [...b, text('P')]), tdef('constructor', [text('C')]), tis('__proto__'), tis('constructor')]],
    ['template:def-after-use', (b) => [tis('t', M.obj([{ short: 'x' }])), tdef('t', [...b, text(E(id('x')))])]],
    ['template:is+if', (b) => [tdef('t', b), tis('t', undefined, { wxIf: C0 })]],
    ['template:is+for', (b) => [tdef('t', [...b, text(E(id('v')))]), tis('t', M.obj([{ key: 'v', value: id('item') }]), { wxFor: { list: LIST } })]],
    ['slot:bare', (b) => [slot(undefined), ...b]],
    ['slot:static-name', (b) => [slot('n'), ...b]],
    ['slot:dynamic-name', (b) => [slot(X), ...b]],
    ['slot:values', (b) => [slot('n', [['a-b', X], ['c', 's']]), ...b]],
    ['slot-scope:child', (b) => [el('c', [], [el('d', [], [...b, text(E(id('u')))], { slotScopes: [['u', undefined]] })])]],
    ['slot-scope:alias', (b) => [el('c', [], [el('d', [], [...b, text(E(id('w')))], { slotScopes: [['u', 'w']] })])]],
    ['slot-scope:dashed', (b) => [el('c', [], [el('d', [], [...b, text(E(id('uV')))], { slotScopes: [['u-v', undefined]] })])]],
    // a text node directly in the slot next to the slot-scoped element, and a slot-scoped element in a child without dynamic slots
    ['slot-scope:text-sibling', (b) => [el('c', [], [el('d', [], [...b, text(E(id('u')))], { slotScopes: [['u', undefined]] }), text('T', X)])]],
    ['slot-scope:in-a-child-without-dynamic-slots', (b) => [el('k', [A.plain('p', Y)], [el('d', [A.plain('q', X)], [...b, text(X)], { slotScopes: [['u', undefined]] })])]],
    ['slot-scope:block', (b) => [el('c', [], [block([...b, text(E(id('u')))], { slotScopes: [['u', undefined]], slot: 's' })])]],
    ['block:slot-attr', (b) => [el('c', [], [block(b, { slot: 's' })])]],
    ['block:slot-attr-dynamic', (b) => [el('c', [], [block(b, { slot: X })])]],
    ['wxs:inline', (b) => [wxs('m', 'exports.f = function(a){ return "<" + a + ">" }'), ...b, text(E(M.call(M.mem(id('m'), 'f'), [id('x')])))]],
    ['wxs:after-use', (b) => [...b, text(E(M.call(M.mem(id('m'), 'f'), [id('x')]))), wxs('m', 'exports.f = function(a){ return "<" + a + ">" }')]],
    ['wxs:in-template-def', (b) => [wxs('m', 'exports.k = "K"'), tdef('t', [...b, text(E(M.mem(id('m'), 'k')))]), tis('t')]],
    ['wxs:change-binding', (b) => [wxs('m', 'exports.f = function(){}'), el('v', [A.change('p-q', E(M.mem(id('m'), 'f')))], b)]],
  ]
  return out
}

/** multi-file constructs: returns {main: nodes, files: {path: nodes}, scripts: {path: src}} */
function multiFileKinds() {
  return [
    ['include', (b) => ({ main: [include('./o.wxml'), ...b], files: { 'd/o': [text('INC', X), ...b] }, scripts: {} })],
    ['include:no-suffix', (b) => ({ main: [el('v', [], [include('o')])], files: { 'd/o': [...b, text(X)] }, scripts: {} })],
    ['include:parent-dir', (b) => ({ main: [include('../o')], files: { o: [text('UP'), ...b] }, scripts: {} })],
    ['include:absolute', (b) => ({ main: [include('/lib/o.wxml')], files: { 'lib/o': [text('ABS'), ...b] }, scripts: {} })],
    ['include:in-for', (b) => ({ main: [block([include('o')], { wxFor: { list: LIST } })], files: { 'd/o': [text('I', X), ...b] }, scripts: {} })],
    ['include:own-wxs', (b) => ({ main: [include('o')], files: { 'd/o': [wxs('m', 'exports.k = "K"'), text(E(M.mem(id('m'), 'k'))), ...b] }, scripts: {} })],
    ['import+is', (b) => ({ main: [imp('o'), tis('t', M.obj([{ short: 'x' }]))], files: { 'd/o': [tdef('t', [text('IMP', E(id('x'))), ...b])] }, scripts: {} })],
    ['import:local-wins', (b) => ({ main: [imp('o'), tdef('t', [text('LOCAL')]), tis('t')], files: { 'd/o': [tdef('t', [text('IMPORTED'), ...b])] }, scripts: {} })],
    ['import:later-wins', (b) => ({ main: [imp('o'), imp('p'), tis('t')], files: { 'd/o': [tdef('t', [text('FIRST')])], 'd/p': [tdef('t', [text('SECOND'), ...b])] }, scripts: {} })],
    ['import:not-transitive-render', (b) => ({ main: [imp('o'), tis('t')], files: { 'd/o': [tdef('t', [text('T'), ...b]), text('TOP-LEVEL-OF-IMPORTED')] }, scripts: {} })],
    // a path that still ends with the suffix after the one the parser strips
    ['include:double-suffix', (b) => ({ main: [include('o.wxml.wxml'), ...b], files: { 'd/o.wxml': [text('INC2', X), ...b] }, scripts: {} })],
    ['import:double-suffix', (b) => ({ main: [imp('./o.wxml.wxml'), tis('t')], files: { 'd/o.wxml': [tdef('t', [text('IMP2'), ...b])] }, scripts: {} })],
    ['wxs:src-double-suffix', (b) => ({ main: [wxs('m', undefined, 's.wxs.wxs'), text(E(M.mem(id('m'), 'k'))), ...b], files: {}, scripts: { 'd/s.wxs': 'exports.k = "S2"' } })],
    ['wxs:src', (b) => ({ main: [wxs('m', undefined, './s.wxs'), text(E(M.mem(id('m'), 'k'))), ...b], files: {}, scripts: { 'd/s': 'exports.k = "S"' } })],
    ['wxs:src-require', (b) => ({ main: [wxs('m', undefined, '/lib/s'), text(E(M.mem(id('m'), 'k'))), ...b], files: {}, scripts: { 'lib/s': 'exports.k = require("./t").k + "!"', 'lib/t': 'exports.k = "T"' } })],
  ]
}

/** expression forms placed at every binding position */
function exprForms() {
  const a = id('a'); const x = id('x'); const y = id('y'); const c = id('c')
  return [
    ['member', M.mem(a, 'b')],
    ['index', M.idx(a, id('n'))],
    ['plus', M.bin('+', x, y)],
    ['cond', M.cond(c, x, y)],
    ['nullish', M.bin('??', x, y)],
    ['or', M.bin('||', x, y)],
    ['and', M.bin('&&', c, x)],
    ['not', M.un('!', x)],
    ['compare', M.bin('===', x, y)],
    ['array', M.arr([x, y])],
    ['array-hole', M.idx(M.arr([{ hole: true }, x]), M.lit('1'))],
    ['object', M.mem(M.obj([{ key: 'k', value: x }]), 'k')],
    ['call', M.call(M.mem(id('m'), 'f'), [x])],
    ['string', M.bin('+', M.lit("'s'"), x)],
    // a string literal as the RIGHT operand of the user's own + (the shape the parser itself builds for "binding, then text")
    ['string-right', M.bin('+', x, M.lit("'s'"))],
    ['string-both', M.bin('+', M.lit("'p'"), M.lit("'s'"))],
    ['paren-bitor', M.bin('^', M.grp(M.bin('|', x, y)), M.lit('1'))],
    ['typeof', M.un('typeof', x)],
    ['length', M.mem(id('list'), 'length')],
    // reads of a list by constant index (a splice shifts what every later index holds)
    ['list-index', M.idx(id('list'), M.lit('1'))],
    ['list-index-member', M.mem(M.idx(id('list'), M.lit('0')), 'v')],
    // a parenthesised conditional as an operand (its branches must stay dependencies of the whole expression)
    ['cond-operand', M.bin('+', M.grp(M.cond(c, x, y)), M.lit("'s'"))],
    ['not-cond', M.un('!', M.grp(M.cond(c, x, y)))],
    ['cond-member', M.mem(M.grp(M.cond(c, a, id('b'))), 'b')],
    ['cond-of-cond', M.cond(M.grp(M.cond(c, x, y)), y, x)],
    ['nullish-operand', M.bin('+', M.grp(M.bin('??', x, y)), M.lit("'s'"))],
    ['object-two-spreads', M.mem(M.obj([{ spread: id('obj') }, { spread: a }]), 'a')],
    ['object-three-spreads', M.mem(M.obj([{ spread: a }, { spread: id('obj') }, { spread: M.obj([{ key: 'k', value: x }]) }]), 'b')],
    ['array-spread', M.mem(M.arr([{ spread: id('list') }, x]), 'length')],
    ['array-spread-index', M.idx(M.arr([{ spread: M.arr([x]) }, { spread: id('list') }, y]), M.lit('1'))],
    ['array-after-spread', M.idx(M.arr([{ spread: M.arr([M.lit('1')]) }, M.mem(a, 'b')]), M.lit('1'))],
    ['plus-right-group', M.bin('+', x, M.grp(M.bin('+', y, M.lit('1'))))],
    // a call whose callee is itself a data value (replacing the function alone must re-evaluate the call)
    ['call-data-function', M.call(id('f'), [x])],
    // two fields (and two members) of which one name is a prefix of the other, read in one expression in both orders
    ['prefix-named-fields', M.bin('+', M.bin('+', x, M.lit("'/'")), id('xs'))],
    ['prefix-named-fields-reversed', M.bin('+', M.bin('+', id('xs'), M.lit("'/'")), x)],
    ['prefix-named-members', M.bin('+', M.bin('+', M.mem(id('aa'), 'b'), M.lit("'/'")), M.mem(id('aa'), 'bb'))],
    // a member of a value and the whole value in one expression, in both orders (the whole value depends on every path below it:
    // a list of primitives joins its items, so a write to one item changes it while the member keeps its value)
    ['member-then-whole', M.bin('+', M.bin('+', M.mem(id('list'), 'length'), M.lit("'/'")), id('list'))],
    ['whole-then-member', M.bin('+', M.bin('+', id('list'), M.lit("'/'")), M.mem(id('list'), 'length'))],
  ]
}
/** binding positions: (expr) -> nodes */
function bindingPositions() {
  const W = wxs('m', 'exports.f = function(a){ return "<" + a + ">" }')
  return [
    ['text', (e) => [W, text(E(e))]],
    ['text-mixed', (e) => [W, text('a', E(e), 'b')]],
    // the binding first, static text behind it, and a second binding behind that
    ['text-leading', (e) => [W, text(E(e), 'b')]],
    ['text-leading-two', (e) => [W, text(E(e), ' b ', E(id('y')))]],
    ['attr-leading', (e) => [W, el('v', [A.plain('p', [E(e), 'b']), A.cls([E(e), ' c ', E(id('y'))])])]],
    ['attr', (e) => [W, el('v', [A.plain('p', E(e))])]],
    ['attr-mixed', (e) => [W, el('v', [A.plain('p', ['a', E(e)])])]],
    ['class', (e) => [W, el('v', [A.cls(E(e))])]],
    ['style-mixed', (e) => [W, el('v', [A.style(['k:', E(e)])])]],
    ['id', (e) => [W, el('v', [A.id(E(e))])]],
    ['slot-attr', (e) => [W, el('v', [A.slot(E(e))])]],
    ['dataset', (e) => [W, el('v', [A.dataHyphen('k', E(e))])]],
    ['mark', (e) => [W, el('v', [A.mark('k', E(e))])]],
    ['event', (e) => [W, el('v', [A.event('bind', 'tap', E(e))])]],
    ['model', (e) => [W, el('v', [A.model('val', E(e))])]],
    ['change', (e) => [W, el('v', [A.change('prop', E(e))])]],
    ['wx:if', (e) => [W, el('v', [], [text('T')], { wxIf: E(e) }), el('w', [], [text('F')], { wxElse: true })]],
    ['wx:if-alone', (e) => [W, el('v', [], [text('T')], { wxIf: E(e) }), text('after')]],
    ['wx:if-alone-block', (e) => [W, block([text('T')], { wxIf: E(e) })]],
    ['wx:if-elif', (e) => [W, el('v', [], [text('T')], { wxIf: E(e) }), el('w', [], [text('E')], { wxElif: E(e) })]],
    ['wx:elif-last', (e) => [W, el('v', [], [text('T')], { wxIf: E(id('d')) }), el('w', [], [text('E')], { wxElif: E(e) })]],
    ['wx:elif', (e) => [W, el('v', [], [text('T')], { wxIf: E(id('d')) }), el('w', [], [text('E')], { wxElif: E(e) }), el('u', [], [], { wxElse: true })]],
    ['wx:for', (e) => [W, el('v', [], [text(E(id('index')), '=', E(id('item')))], { wxFor: { list: E(e) } })]],
    ['for+if', (e) => [W, el('v', [], [text(E(id('item')))], { wxFor: { list: E(id('list')) }, wxIf: E(M.bin('||', e, id('item'))) })]],
    ['in-for-body', (e) => [W, el('v', [A.plain('p', E(e))], [text(E(id('item')))], { wxFor: { list: E(id('list')) } })]],
    ['template-is', (e) => [W, tdef('X', [text('TX')]), tdef('s', [text('TS')]), tis(E(e))]],
    ['template-data', (e) => [W, tdef('t', [text(E(id('v')))]), tis('t', M.obj([{ key: 'v', value: e }]))]],
    ['template-data-spread', (e) => [W, tdef('t', [text(E(id('b')), E(id('k')))]), tis('t', M.obj([{ spread: e }]))]],
    ['slot-name', (e) => [W, slot(E(e))]],
    ['slot-value', (e) => [W, slot('n', [['v', E(e)]])]],
    ['block-slot-attr', (e) => [W, el('c', [], [block([text('t')], { slot: E(e) })])]],
    ['in-slot-scope', (e) => [W, el('c', [], [el('d', [A.plain('p', E(e))], [text(E(id('u')))], { slotScopes: [['u', undefined]] })])]],
    ['in-template-body', (e) => [W, tdef('t', [el('v', [A.plain('p', E(e))])]), tis('t', M.obj([{ short: 'x' }, { short: 'y' }, { short: 'a' }, { short: 'c' }, { short: 'n' }, { short: 'list' }, { short: 'f' }]))]],
  ]
}

/** one field used at a position the binding map can serve AND at one it cannot (C07) */
function placementCases() {
  const out = []
  const forms = [
    ['plain', (n) => n],
    ['after-hole', (n) => M.idx(M.arr([{ hole: true }, n]), M.lit('1'))],
    ['object-member', (n) => M.mem(M.obj([{ key: 'k', value: n }]), 'k')],
    ['or', (n) => M.bin('||', n, id('y'))],
    ['cond', (n) => M.cond(id('c'), n, id('y'))],
  ]
  const mappable = [
    ['text', (e) => text(E(e))],
    ['mixed-text', (e) => text('a', E(e), 'b')],
    ['attr', (e) => el('v', [A.plain('p', E(e))])],
    ['class', (e) => el('v', [A.cls(['c ', E(e)])])],
    ['id', (e) => el('v', [A.id(E(e))])],
    ['dataset', (e) => el('v', [A.dataHyphen('k', E(e))])],
    ['mark', (e) => el('v', [A.mark('k', E(e))])],
    ['event', (e) => el('v', [A.event('bind', 'tap', E(e))])],
    ['slot-attr', (e) => el('v', [A.slot(E(e))])],
    ['style', (e) => el('v', [A.style(E(e))])],
  ]
  const unreachable = [
    ['if-condition', (e) => [el('w', [], [text('T')], { wxIf: E(e) }), el('w', [], [text('F')], { wxElse: true })]],
    ['elif-condition', (e) => [el('w', [], [text('T')], { wxIf: E(id('d')) }), el('w', [], [text('E')], { wxElif: E(e) })]],
    ['for-list', (e) => [el('w', [], [text(E(id('item')))], { wxFor: { list: E(M.arr([e])) } })]],
    ['inside-if', (e) => [block([el('w', [A.plain('q', E(e))])], { wxIf: E(id('d2')) })]],
    ['inside-else', (e) => [block([text('x')], { wxIf: E(id('d')) }), block([text(E(e))], { wxElse: true })]],
    ['inside-for', (e) => [block([el('w', [A.plain('q', E(e))])], { wxFor: { list: E(id('list')) } })]],
    // a condition that is a constant string still makes a dynamic subtree (the untaken branch is never created)
    ['inside-static-if', (e) => [block([el('w', [A.plain('q', E(e))])], { wxIf: 'yes' })]],
    ['inside-else-of-static-if', (e) => [el('w', [], [text('A')], { wxIf: 'yes' }), el('w', [], [text(E(e))], { wxElse: true })]],
    ['template-data', (e) => [tdef('t', [text(E(id('v')))]), tis('t', M.obj([{ key: 'v', value: e }]))]],
    ['template-target', (e) => [tdef('X', [text('TX')]), tdef('X2', [text('TX2')]), tis(E(e))]],
    ['template-body', (e) => [tdef('t', [text(E(e))]), tis('t', M.obj([{ short: 'x' }, { short: 'y' }, { short: 'c' }]))]],
    ['slot-name', (e) => [slot(E(e))]],
    ['block-slot-attr', (e) => [el('c', [], [block([text('t')], { slot: E(e) })])]],
    ['include-body', (e) => [include('o')]],
    ['include-inside-if', (e) => [block([include('o')], { wxIf: E(id('d2')) })]],
    ['include-inside-for', (e) => [block([include('o')], { wxFor: { list: E(id('list')) } })]],
    ['include-inside-element', (e) => [el('w', [], [include('o')])]],
  ]
  // a binding that FOLLOWS a nested dynamic node inside an outer dynamic subtree (the outer subtree is still open)
  const outers = [
    ['if', (b) => [block(b, { wxIf: E(id('d2')) })]],
    ['else', (b) => [block([text('x')], { wxIf: E(id('d')) }), block(b, { wxElse: true })]],
    ['for', (b) => [block(b, { wxFor: { list: E(id('list')) } })]],
    ['for-element', (b) => [el('w', [], b, { wxFor: { list: E(id('list')) } })]],
  ]
  const nested = [
    ['if', () => [el('q', [], [text('*')], { wxIf: E(id('d')) })]],
    ['if-else', () => [el('q', [], [text('*')], { wxIf: E(id('d')) }), el('q', [], [text('-')], { wxElse: true })]],
    ['for', () => [block([text('i')], { wxFor: { list: E(M.arr([M.lit('1'), M.lit('2')])), item: 'j', index: 'k' } })]],
    ['template-is', () => [tdef('nt', [text('NT')]), tis('nt')]],
    ['include', () => [include('o2')]],
    ['slot', () => [slot('sn')]],
  ]
  for (const [on, of] of outers) for (const [nn, nf] of nested) {
    unreachable.push([`after-${nn}-inside-${on}`, (e) => of([...nf(), el('s', [A.plain('q', E(e))], [text(E(e))])])])
  }
  const basicCount = 15 // the positions listed literally above are crossed with every form and every mappable position; the composed ones with two of each
  for (const [fn, f] of forms) for (const [mn, m] of mappable) for (const [un, u] of unreachable) for (const order of [0, 1]) {
    if (unreachable.findIndex((x) => x[0] === un) >= basicCount && !((fn === 'plain' || fn === 'cond') && (mn === 'text' || mn === 'attr'))) continue
    const e = f(id('x'))
    const a = [m(e)]
    const b = u(fn === 'plain' ? id('x') : e)
    const main = order === 0 ? [...a, ...b] : [...b, ...a]
    const files = un.startsWith('include-') ? { 'd/o': [text('I', E(e)), el('i', [A.cls(E(e))])] } : un.includes('after-include-') ? { 'd/o2': [text('I2')] } : {}
    out.push({ name: `placement:${fn}:${mn}+${un}:${order === 0 ? 'mappable-first' : 'unreachable-first'}`, main, files, scripts: {} })
  }
  return out
}

/**
 * local-name walk: the generator numbers its locals a…z, A…Z, a0, b0 … per function scope; k bare sibling elements in front of a
 * body shift every local of the body by k names, so k = 0 … n walks each local of the body through every name of the sequence
 * (a helper parameter or a fixed identifier of the generated code that coincides with one of them is then read instead of it).
 * Bodies: constructs whose generated code nests a helper function around a reference to a loop local.
 */
function localWalkCases(maxPad, step) {
  const out = []
  const item = id('item')
  const a = id('a')
  const LISTE = E(id('list'))
  const bodies = [
    ['for:object-spread+item-field', () => [el('v', [A.plain('p', E(M.mem(M.mem(M.obj([{ spread: a }, { key: 'k', value: item }]), 'k'), 'v'))), A.plain('q', E(M.mem(M.obj([{ spread: a }, { key: 'k', value: item }]), 'b')))], [], { wxFor: { list: LISTE } })]],
    ['for:template-data-spread+item', () => [tdef('t', [text(E(M.mem(id('v'), 'v')), '/', E(id('b')))]), block([tis('t', M.obj([{ spread: a }, { key: 'v', value: item }]))], { wxFor: { list: LISTE } })]],
    ['for:array-spread+item', () => [el('v', [A.plain('p', E(M.mem(M.idx(M.arr([{ spread: M.arr([item]) }, id('x')]), M.lit('0')), 'v'))), A.plain('q', E(M.mem(M.arr([{ spread: id('list') }, item]), 'length')))], [], { wxFor: { list: LISTE } })]],
    ['for:nested-for-spread-of-outer-item', () => [block([el('v', [A.plain('p', E(M.mem(M.obj([{ spread: item }, { key: 'k', value: id('j') }]), 'v'))), A.plain('q', E(M.mem(M.obj([{ spread: a }, { key: 'k', value: id('j') }]), 'k')))], [text(E(id('j')), E(id('x')))], { wxFor: { list: E(M.arr([M.lit('1'), id('y')])), item: 'j', index: 'i' } })], { wxFor: { list: LISTE } })]],
    ['for:cond-member-of-item', () => [el('v', [A.plain('p', E(M.mem(M.grp(M.cond(id('c'), item, a)), 'v'))), A.model('val', E(M.mem(item, 'v')))], [text(E(id('index')))], { wxFor: { list: LISTE, key: 'id' } })]],
  ]
  for (const [bn, bf] of bodies) for (let k = 0; k <= maxPad; k += step) {
    const pads = []
    for (let i = 0; i < k; i++) pads.push(el('e', [], []))
    out.push({ name: `local-walk:${bn}:pad${k}`, main: [...pads, ...bf()], files: {}, scripts: {}, walk: true })
  }
  return out
}

// ---------------------------------------------------------------------------------------------
// data environments

/** function-valued data (named, so that histories can be written down and replayed) */
const FNS = { f1: function f1(v) { return '<' + v + '>' }, f2: function f2(v) { return '[' + v + ']' } }

// (no prototype: fields named like members of Object.prototype are ordinary fields)
const VALUES = Object.assign(Object.create(null), {
  toString: [0, 1, undefined],
  constructor: ['K', undefined, 0],
  f: [FNS.f1, FNS.f2, undefined],
  x: [undefined, null, 'X', 0, false, '', 7, { toString() { return 'obj' } }],
  y: [undefined, 'Y', 0, null],
  c: [undefined, 0, 1, '', 'a', null],
  d: [0, 1],
  d2: [1, 0],
  list: [undefined, [], [1, 2], ['', 0], { k: 1, m: 2 }, 'ab', 2, null, [{ id: 1, v: 'p' }, { id: 2, v: 'q' }], [[1, 2], 'xy']],
  a: [undefined, { b: 'B' }, null],
  obj: [undefined, {}, { a: { id: 1, v: 'p' }, b: { id: 2, v: 'q' } }, { b: { id: 2, v: 'q' }, a: { id: 1, v: 'p' } }, { k: 1 }],
  n: ['t', 'u', undefined, '', 'b'],
  b: [undefined, 'BB'],
  xs: [undefined, 'S'],
  aa: [undefined, { b: '1', bb: '2' }, { b: '1' }],
})

function collectNames(obj, out = new Set()) {
  if (!obj || typeof obj !== 'object') return out
  if (Array.isArray(obj)) { obj.forEach((o) => collectNames(o, out)); return out }
  if (obj.k === 'id' && typeof obj.name === 'string') out.add(obj.name)
  if (obj.short) out.add(obj.short)
  for (const k of Object.keys(obj)) if (k !== 'tokens') collectNames(obj[k], out)
  return out
}

/** all data environments for the names a case uses (exhaustive up to `cap` environments, then all-pairs cover) */
function environments(names, cap) {
  const used = [...names].filter((n) => VALUES[n])
  let total = 1
  for (const n of used) total *= VALUES[n].length
  const out = []
  if (total <= cap) {
    const rec = (i, cur) => {
      if (i === used.length) { out.push(Object.assign({}, cur)); return }
      for (const v of VALUES[used[i]]) { cur[used[i]] = v; rec(i + 1, cur) }
    }
    rec(0, {})
    return out
  }
  // deterministic pairwise cover: for every pair of names every pair of values appears
  const seen = new Set()
  const key = (e) => used.map((n) => VALUES[n].indexOf(e[n])).join(',')
  for (let i = 0; i < used.length; i++) {
    for (let j = i + 1; j < used.length; j++) {
      for (let a = 0; a < VALUES[used[i]].length; a++) {
        for (let b = 0; b < VALUES[used[j]].length; b++) {
          const e = {}
          used.forEach((n, k) => { e[n] = VALUES[n][(a + b + k) % VALUES[n].length] })
          e[used[i]] = VALUES[used[i]][a]
          e[used[j]] = VALUES[used[j]][b]
          const k2 = key(e)
          if (!seen.has(k2)) { seen.add(k2); out.push(e) }
        }
      }
    }
  }
  return out
}

// ---------------------------------------------------------------------------------------------
// the corpus

/**
 * cases: {name, main: nodes, files, scripts}
 * size 1: every leaf, every element kind, every control kind around the first wrappable body, every multi-file kind
 * size 2: every control kind x every wrappable body; element / leaf sibling pairs; element > leaf / element
 * size 3 (deep): control kind inside control kind
 */
function corpus(deep) {
  const out = []
  const push = (name, main, files, scripts) => out.push({ name, main, files: files || {}, scripts: scripts || {} })
  const leaves = leafKinds()
  const allEls = elementKinds()
  // (the name sweep is not crossed with parents: a name is normalised the same way wherever the element sits)
  const els = allEls.filter((e) => !e[0].startsWith('name-x'))
  const wraps = wrappable()
  const ctrls = controlKinds()
  const multi = multiFileKinds()
  for (const [n, f] of leaves) push(n, [f()])
  for (const [n, f] of allEls) push(n, [f()])
  for (const [cn, cf] of ctrls) for (const [wn, wf] of wraps) push(`${cn}(${wn})`, cf(wf()))
  for (const [mn, mf] of multi) for (const [wn, wf] of wraps) { const m = mf(wf()); push(`${mn}(${wn})`, m.main, m.files, m.scripts) }
  // sibling pairs and parent > child
  for (const [n1, f1] of leaves) for (const [n2, f2] of [...leaves, ...els.slice(0, 6)]) push(`${n1} + ${n2}`, [f1(), f2()])
  for (const [n1, f1] of els.slice(0, 8)) for (const [n2, f2] of leaves) push(`${n1} + ${n2}`, [f1(), f2()])
  for (const [n2, f2] of [...leaves, ...els]) push(`v > ${n2}`, [el('v', [], [f2()])])
  for (const [n2, f2] of [...leaves, ...els]) push(`block > ${n2}`, [block([f2()])])
  for (const [n2, f2] of [...leaves, ...els.slice(0, 12)]) push(`if > ${n2}`, [block([f2()], { wxIf: C0 }), block([text('else')], { wxElse: true })])
  for (const [n2, f2] of els) push(`for > ${n2}`, [block([f2()], { wxFor: { list: LIST } })])
  for (const [pn, pf] of bindingPositions()) for (const [en, e] of exprForms()) push(`expr:${en}@${pn}`, pf(e))
  for (const c of placementCases()) out.push(c)
  if (deep) {
    for (const [c1, f1] of ctrls) for (const [c2, f2] of ctrls) {
      if (c2.startsWith('wxs') || c2.startsWith('template:def') || c1.startsWith('wxs')) continue
      push(`${c1}(${c2}(text))`, f1(f2(wraps[0][1]())))
    }
    for (const [mn, mf] of multi) for (const [c2, f2] of ctrls) {
      if (c2.startsWith('wxs')) continue
      const m = mf(f2(wraps[1][1]()))
      push(`${mn}(${c2}(element))`, m.main, m.files, m.scripts)
    }
  }
  return out
}

module.exports = { localWalkCases, placementCases, exprForms, bindingPositions, leafKinds, elementKinds, wrappable, controlKinds, multiFileKinds, corpus, environments, collectNames, VALUES, FNS }
