'use strict'
// Template model: node constructors, printer (concrete-syntax variants, token positions),
// reference renderer (WXML semantics interpreted on the MODEL, never on the compiler's AST).

const M = require('./exprmodel')
const { listEntries } = require('./rt_record')

// ---------------------------------------------------------------------------------------------
// constructors

/** text made of pieces: strings (static, raw characters) and {e: expr} bindings */
const text = (...pieces) => ({ k: 'text', pieces })
const comment = (s) => ({ k: 'comment', s })
/** attributes: {f: family, name, v}; v: undefined (valueless) | string | {e: expr} | [pieces] */
const el = (tag, attrs = [], children = [], opts = {}) => Object.assign({ k: 'el', tag, attrs, children }, opts)
const block = (children = [], opts = {}) => Object.assign({ k: 'block', children }, opts)
/** control attributes live in opts: wxIf / wxElif / wxElse / wxFor {list, item, index, key} / slotScopes [[name, alias]] */
const tdef = (name, children) => ({ k: 'tdef', name, children })
const tis = (is, data, opts = {}) => Object.assign({ k: 'tis', is, data }, opts) // is: string | {e}; data: undefined | object-literal expr (M.obj)
const include = (src) => ({ k: 'include', src })
const imp = (src) => ({ k: 'import', src })
const slot = (name, values = [], opts = {}) => Object.assign({ k: 'slot', name, values }, opts) // name: undefined | string | {e}; values: [[attrName, v]]
const wxs = (module, body, src) => ({ k: 'wxs', module, body, src })

const A = {
  plain: (name, v) => ({ f: 'plain', name, v }),
  cls: (v) => ({ f: 'class', name: 'class', v }),
  style: (v) => ({ f: 'style', name: 'style', v }),
  id: (v) => ({ f: 'id', name: 'id', v }),
  slot: (v) => ({ f: 'slot', name: 'slot', v }),
  dataHyphen: (name, v) => ({ f: 'data-', name, v }), // name without the "data-" prefix
  dataColon: (name, v) => ({ f: 'data:', name, v }),
  mark: (name, v) => ({ f: 'mark', name, v }),
  event: (prefix, name, v) => ({ f: 'event', prefix, name, v }), // prefix: bind catch mut-bind capture-bind capture-catch capture-mut-bind
  legacyEvent: (name, v) => ({ f: 'plain', name, v, legacy: true }), // bindtap="…"
  model: (name, v) => ({ f: 'model', name, v }),
  change: (name, v) => ({ f: 'change', name, v }),
  worklet: (name, v) => ({ f: 'worklet', name, v }),
  generic: (name, v) => ({ f: 'generic', name, v }),
  extraAttr: (name, v) => ({ f: 'extra-attr', name, v }),
}
const E = (e) => ({ e })

const dashToCamel = (s) => s.replace(/-(.|$)/g, (m) => (m[1] ? m[1].toUpperCase() : ''))

// ---------------------------------------------------------------------------------------------
// printer

const DEFAULT_SYNTAX = { quote: '"', selfClose: true, exprPad: '', entity: 'named', attrSep: ' ', newlineBetweenNodes: false }
/** the concrete-syntax variants, one variation at a time */
const SYNTAX_VARIANTS = [
  {},
  { quote: "'" },
  { selfClose: false },
  { exprPad: ' ' },
  { entity: 'decimal' },
  { entity: 'hex' },
  { attrSep: '\n  ' },
  { newlineBetweenNodes: true },
  { exprPad: '\n' },
  { attrSep: '\r\n  ', exprPad: '\r\n' },
]

class Printer {
  constructor(syntax) {
    this.s = Object.assign({}, DEFAULT_SYNTAX, syntax || {})
    this.out = ''
    this.line = 0
    this.col = 0
    this.tokens = []
  }
  raw(t) {
    this.out += t
    for (const ch of t) {
      if (ch === '\n') { this.line += 1; this.col = 0 } else this.col += ch.length
    }
  }
  /** emit a token and record where it starts / ends */
  tok(kind, t, extra) {
    const start = [this.line, this.col]
    const off = this.out.length
    this.raw(t)
    const rec = Object.assign({ kind, text: t, start, end: [this.line, this.col], off, offEnd: this.out.length }, extra || {})
    this.tokens.push(rec)
    return rec
  }
  escText(s, nextIsBinding) {
    if (nextIsBinding && s.endsWith('{')) return this.escText(s.slice(0, -1)) + '&#123;'
    // characters static text cannot carry raw
    let out = ''
    for (let i = 0; i < s.length; i++) {
      const ch = s[i]
      const ref = this.numericRef(s, i)
      if (ref) { out += ref[0]; i += ref[1] - 1 }
      else if (ch === '<') out += this.ent('lt', 60)
      else if (ch === '&') out += this.ent('amp', 38)
      else if (ch === '{' && s[i + 1] === '{') out += '&#123;'
      else out += ch
    }
    return out
  }
  /** in the decimal / hex entity variants a few characters are written as numeric references, so that references of
   *  1, 2, 5 and 6 hex digits (1, 3, 6, 7 decimal digits) occur in well-formed input: TAB, e-acute, an emoji, U+10FFFF */
  numericRef(s, i) {
    if (this.s.entity !== 'decimal' && this.s.entity !== 'hex') return null
    const cp = s.codePointAt(i)
    if (cp !== 9 && cp !== 0xe9 && cp !== 0x1f600 && cp !== 0x10ffff) return null
    return [this.s.entity === 'decimal' ? `&#${cp};` : `&#x${cp.toString(16).toUpperCase()};`, cp > 0xffff ? 2 : 1]
  }
  escAttr(s, q, nextIsBinding) {
    if (nextIsBinding && s.endsWith('{')) return this.escAttr(s.slice(0, -1), q) + '&#123;'
    let out = ''
    for (let i = 0; i < s.length; i++) {
      const ch = s[i]
      const ref = this.numericRef(s, i)
      if (ref) { out += ref[0]; i += ref[1] - 1; continue }
      if (ch === q) out += q === '"' ? this.ent('quot', 34) : '&#39;'
      else if (ch === '&') out += this.ent('amp', 38)
      else if (ch === '{' && s[i + 1] === '{') out += '&#123;'
      else out += ch
    }
    return out
  }
  ent(name, code) {
    if (this.s.entity === 'decimal') return `&#${code};`
    if (this.s.entity === 'hex') return `&#x${code.toString(16)};`
    return `&${name};`
  }
  expr(e, isObjectInner) {
    const open = this.tok('brace-open', '{{')
    this.raw(this.s.exprPad)
    const body = isObjectInner ? objectInner(e) : M.printMin(e)
    // an expression that starts with `{` needs a blank after the opening braces
    if (!isObjectInner && body.startsWith('{') && this.s.exprPad === '') this.raw(' ')
    const t = this.tok('expr', body, { expr: e })
    if (!isObjectInner && body.endsWith('}') && this.s.exprPad === '') this.raw(' ')
    this.raw(this.s.exprPad)
    this.tok('brace-close', '}}')
    return { open, t }
  }
  /** value: string | {e} | [pieces]; q = quote char */
  value(v, q, isObjectInner) {
    if (typeof v === 'string') { if (v.length) this.tok('static-value', this.escAttr(v, q), { value: v }); return }
    if (Array.isArray(v)) {
      v.forEach((p, i) => {
        if (typeof p === 'string') this.tok('static-piece', this.escAttr(p, q, i + 1 < v.length && typeof v[i + 1] !== 'string'), { value: p })
        else this.expr(p.e)
      })
      return
    }
    this.expr(v.e, isObjectInner)
  }
  quoteFor(v) {
    // an expression containing the preferred quote must sit in the other one (entities are not decoded inside {{ }})
    let q = this.s.quote
    const texts = []
    const visit = (x) => { if (x && typeof x === 'object' && x.e) texts.push(M.printMin(x.e)); if (Array.isArray(x)) x.forEach(visit) }
    visit(v)
    const all = texts.join(' ')
    if (all.includes(q)) q = q === '"' ? "'" : '"'
    return q
  }
  attr(nameText, v, extra) {
    this.raw(this.s.attrSep)
    const name = this.tok('attr-name', nameText, extra)
    if (v === undefined) { this.tokens.push({ kind: 'attr-end', text: '', start: [this.line, this.col], end: [this.line, this.col], off: this.out.length, offEnd: this.out.length, name }); return name }
    this.raw('=')
    // (an unquoted value ends at the first blank, `/` or `>`: only used for single bindings printed without blanks)
    const q = extra && extra.unquoted && this.s.exprPad === '' ? '' : this.quoteFor(v)
    this.raw(q)
    this.value(v, q, extra && extra.objectInner)
    this.raw(q)
    this.tokens.push({ kind: 'attr-end', text: '', start: [this.line, this.col], end: [this.line, this.col], off: this.out.length, offEnd: this.out.length, name })
    return name
  }
  controlAttrs(n) {
    if (n.wxIf) this.attr('wx:if', n.wxIf)
    if (n.wxElif) this.attr('wx:elif', n.wxElif)
    if (n.wxElse) this.attr('wx:else', undefined)
    if (n.wxFor) {
      this.attr('wx:for', n.wxFor.list)
      if (n.wxFor.item) this.attr('wx:for-item', n.wxFor.item)
      if (n.wxFor.index) this.attr('wx:for-index', n.wxFor.index)
      if (n.wxFor.key) this.attr('wx:key', n.wxFor.key)
    }
    for (const [name, alias] of n.slotScopes || []) this.attr('slot:' + name, alias === undefined ? undefined : alias)
  }
  attrName(a) {
    switch (a.f) {
      case 'plain': case 'class': case 'style': case 'id': case 'slot': return a.name
      case 'data-': return 'data-' + a.name
      case 'data:': return 'data:' + a.name
      case 'mark': return 'mark:' + a.name
      case 'event': return a.prefix + ':' + a.name
      case 'model': return 'model:' + a.name
      case 'change': return 'change:' + a.name
      case 'worklet': return 'worklet:' + a.name
      case 'generic': return 'generic:' + a.name
      case 'extra-attr': return 'extra-attr:' + a.name
      default: throw new Error('attr family ' + a.f)
    }
  }
  open(tag, n, attrsFn, children) {
    const startTok = this.tok('tag-open', '<')
    const nameTok = this.tok('tag-name', tag, { node: n })
    attrsFn()
    const hasChildren = children && children.length > 0
    if (!hasChildren && this.s.selfClose) {
      this.raw(this.s.attrSep === ' ' ? '' : this.s.attrSep.replace(/ +$/, ''))
      this.tok('self-close', '/>', { tag, node: n })
      return { startTok, nameTok }
    }
    if (this.s.attrSep !== ' ') this.raw(this.s.attrSep.replace(/ +$/, ''))
    this.tok('tag-end', '>')
    if (hasChildren) this.nodes(children)
    this.tok('close-open', '</')
    this.tok('end-tag-name', tag, { opener: nameTok })
    this.tok('tag-end', '>')
    return { startTok, nameTok }
  }
  nodes(list0) {
    const list = []
    for (const n of list0) {
      const last = list[list.length - 1]
      if (n.k === 'text' && last && last.k === 'text') list[list.length - 1] = { k: 'text', pieces: [...last.pieces, ...n.pieces] }
      else list.push(n)
    }
    list.forEach((n, i) => {
      if (this.s.newlineBetweenNodes && i > 0 && n.k !== 'text' && list[i - 1].k !== 'text') this.raw('\n')
      this.node(n)
    })
  }
  node(n) {
    switch (n.k) {
      case 'text':
        n.pieces.forEach((p, i) => {
          if (typeof p === 'string') this.tok('text', this.escText(p, i + 1 < n.pieces.length && typeof n.pieces[i + 1] !== 'string'), { value: p })
          else this.expr(p.e)
        })
        this.lastTextEndsWithBrace = false
        break
      case 'comment': this.tok('comment', `<!--${n.s}-->`); break
      case 'el':
        this.open(n.tag, n, () => { this.controlAttrs(n); for (const a of n.attrs) this.attr(this.attrName(a), a.v, { attr: a }) }, n.children)
        break
      case 'block':
        this.open('block', n, () => { this.controlAttrs(n); if (n.slot !== undefined) this.attr('slot', n.slot) }, n.children)
        break
      case 'tdef': this.open('template', n, () => this.attr('name', n.name), n.children); break
      case 'tis':
        this.open('template', n, () => { this.controlAttrs(n); this.attr('is', n.is); if (n.data) this.attr('data', { e: n.data }, { objectInner: true, unquoted: !!n.unquotedData }) }, [])
        break
      case 'include': this.open('include', n, () => this.attr('src', n.src), []); break
      case 'import': this.open('import', n, () => this.attr('src', n.src), []); break
      case 'slot':
        this.open('slot', n, () => { this.controlAttrs(n); if (n.name !== undefined) this.attr('name', n.name); for (const [k, v] of n.values) this.attr(k, v); for (const a of n.attrs || []) this.attr(this.attrName(a), a.v, { attr: a }) }, [])
        break
      case 'wxs':
        if (n.src !== undefined) this.open('wxs', n, () => { this.attr('module', n.module); this.attr('src', n.src) }, [])
        else { this.tok('tag-open', '<'); this.tok('tag-name', 'wxs'); this.attr('module', n.module); this.tok('tag-end', '>'); this.tok('script', n.body); this.tok('close-open', '</'); this.tok('end-tag-name', 'wxs'); this.tok('tag-end', '>') }
        break
      default: throw new Error('node kind ' + n.k)
    }
  }
}

/** the inside of an object literal, as written in `data="{{ a: 1, b }}"` */
function objectInner(e) {
  const s = M.printMin(e)
  return s.slice(1, -1)
}

function print(nodes, syntax) {
  const p = new Printer(syntax)
  p.nodes(nodes)
  return { text: p.out, tokens: p.tokens }
}

// ---------------------------------------------------------------------------------------------
// reference renderer

const refCache = new Map()
function evalExpr(e, env) {
  const key = M.printRef(e)
  let f = refCache.get(key)
  if (!f) { f = M.compileRef(e, true); refCache.set(key, f) }
  return f(env, {})
}
const Y = (v) => (v === null || v === undefined ? '' : String(v))

function evalValue(v, env) {
  // string -> static; {e} -> raw value; [pieces] -> concatenation with null/undefined as ''
  if (typeof v === 'string') return v
  if (Array.isArray(v)) return v.map((p) => (typeof p === 'string' ? p : Y(evalExpr(p.e, env)))).join('')
  return evalExpr(v.e, env)
}

/**
 * files: {path: nodes}; scripts: {path: source}; returns the canonical tree of `path` rendered with `data`.
 * opts.slotValues(elementModel) -> array of V objects (one per emulated slot instance)
 * opts.resolve(base, rel) -> path  (reference path resolution)
 */
function render(files, scripts, path, data, opts) {
  opts = opts || {}
  const resolve = opts.resolve || ((base, rel) => refResolve(base, rel))
  const moduleCache = new Map()
  const loadScript = (p) => {
    if (moduleCache.has(p)) return moduleCache.get(p).exports
    const src = scripts[p]
    if (src === undefined) throw new Error('no such WXS module: ' + p)
    const module = { exports: {} }
    moduleCache.set(p, module)
    const require = (rel) => loadScript(refResolveScript(p, rel))
    // eslint-disable-next-line no-new-func
    new Function('require', 'exports', 'module', src)(require, module.exports, module)
    return module.exports
  }
  // definitions, imports and script modules are file-global wherever they are written
  const deep = (nodes, kind, out = []) => {
    for (const n of nodes || []) {
      if (n.k === kind) out.push(n)
      if (n.children) deep(n.children, kind, out)
    }
    return out
  }
  const fileModules = (p) => {
    // script modules of a file: visible in the whole file (and inside its template definitions)
    const mods = {}
    for (const n of deep(files[p], 'wxs')) {
      {
        if (n.src !== undefined) mods[n.module] = loadScript(refResolve(p, n.src, '.wxs'))
        else { const key = p + '#' + n.module; if (!(key in scripts)) scripts[key] = n.body; mods[n.module] = loadScript(key) }
      }
    }
    return mods
  }
  /** template definitions visible from a file: local first, then imports, later imports before earlier */
  const lookupTemplate = (p, name) => {
    const local = deep(files[p], 'tdef').filter((n) => n.name === name)
    if (local.length) return { def: local[local.length - 1], file: p }
    const imports = deep(files[p], 'import').map((n) => resolve(p, n.src))
    for (let i = imports.length - 1; i >= 0; i--) {
      const defs = deep(files[imports[i]], 'tdef').filter((n) => n.name === name)
      if (defs.length) return { def: defs[defs.length - 1], file: imports[i] }
    }
    return null
  }
  // (a data object is an ordinary object: a name that is no field of it but a member of Object.prototype reads that member,
  //  exactly as `D.toString` does in the generated code and `$.toString` in the JavaScript reference)
  const mkEnv = (d, scope) => Object.assign({}, (typeof d === 'object' && d !== null) ? d : {}, scope)

  function renderList(list0, ctx) {
    // adjacent text nodes of the model are one text run in the source
    const list = []
    for (const n of list0) {
      const last = list[list.length - 1]
      if (n.k === 'text' && last && last.k === 'text' && !n.wxIf && !n.wxFor) list[list.length - 1] = { k: 'text', pieces: [...last.pieces, ...n.pieces] }
      else list.push(n)
    }
    const out = []
    let i = 0
    while (i < list.length) {
      const n = list[i]
      if (n.wxIf && !n.wxFor) {
        // an if chain: this node and the following elif / else nodes (comments between branches move into the next branch)
        const chain = [n]
        let j = i + 1
        const pendingComments = []
        while (j < list.length) {
          const m = list[j]
          if (m.k === 'comment') { pendingComments.push(m); j++; continue }
          if (m.k === 'text' && m.pieces.every((p) => typeof p === 'string' && /^[ \t\r\n]*$/.test(p))) { j++; continue }
          if (m.wxElif || m.wxElse) { chain.push(m); pendingComments.length = 0; j++; continue }
          break
        }
        // nodes consumed: up to the last branch
        let lastBranch = i
        for (let k = i + 1; k < j; k++) if (list[k].wxElif || list[k].wxElse) lastBranch = k
        let chosen = null
        for (const b of chain) {
          if (b.wxElse) { chosen = b; break }
          const c = b.wxIf || b.wxElif
          if (evalValue(c, ctx.env())) { chosen = b; break }
        }
        if (chosen) out.push(...renderNode(chosen, ctx, true))
        i = lastBranch + 1
        continue
      }
      out.push(...renderNode(n, ctx, false))
      i += 1
    }
    return out
  }

  function withFor(n, ctx, body) {
    const f = n.wxFor
    const listVal = evalValue(f.list, ctx.env())
    const out = []
    for (const [item, index] of listEntries(listVal)) {
      const scope = Object.assign({}, ctx.scope)
      scope[f.item || 'item'] = item
      scope[f.index || 'index'] = index
      out.push(...body(Object.assign({}, ctx, { scope, env: () => mkEnv(ctx.data, scope) })))
    }
    return out
  }

  function renderNode(n, ctx, ifTaken) {
    // wx:for wraps everything else (a wx:if on the same element is evaluated per item)
    if (n.wxFor && !ctx.skipFor) {
      return withFor(n, ctx, (c2) => {
        const inner = Object.assign({}, c2, { skipFor: true })
        if (n.wxIf) {
          const r = evalValue(n.wxIf, inner.env()) ? renderNode(n, Object.assign({}, inner, { skipIf: true }), true) : []
          return r
        }
        return renderNode(n, inner, false)
      })
    }
    ctx = Object.assign({}, ctx, { skipFor: false })
    switch (n.k) {
      case 'text': {
        const allStatic = n.pieces.every((p) => typeof p === 'string')
        const s = n.pieces.map((p) => (typeof p === 'string' ? p : Y(evalExpr(p.e, ctx.env())))).join('')
        if (allStatic && /^[ \t\r\n\f\v]*$/.test(s)) return []
        return [{ t: 'text', text: s }]
      }
      case 'comment': return []
      case 'wxs': case 'tdef': case 'import': return []
      case 'block': {
        const ch = renderChildrenWithSlots(n, ctx)
        if (n.slot !== undefined || (n.slotScopes && n.slotScopes.length)) return [{ t: 'virtual', slot: n.slot === undefined ? undefined : Y(evalValue(n.slot, ctx.env())), children: ch }]
        return ch
      }
      case 'el': return [renderElement(n, ctx)]
      case 'slot': {
        const name = n.name === undefined ? '' : Y(evalValue(n.name, ctx.env()))
        const values = n.values.map(([k, v]) => [dashToCamel(k), v === undefined ? undefined : evalValue(v, ctx.env())])
        // a <slot> carries dataset, marks, events and an id through their own channels (everything else is a slot value)
        const attrs = []
        for (const a of n.attrs || []) {
          const val = a.v === undefined ? undefined : evalValue(a.v, ctx.env())
          switch (a.f) {
            case 'id': attrs.push(['id', null, val]); break
            case 'data-': attrs.push(['dataset', dashToCamel(a.name.toLowerCase()), a.v === undefined ? true : val]); break
            case 'data:': attrs.push(['dataset', a.name, a.v === undefined ? true : val]); break
            case 'mark': attrs.push(['mark', a.name, a.v === undefined ? true : val]); break
            case 'event': attrs.push(['event', a.name, a.v === undefined ? '' : val, { catch: a.prefix.includes('catch'), mut: a.prefix.includes('mut-bind'), capture: a.prefix.startsWith('capture-') }]); break
            default: throw new Error('family on a slot element: ' + a.f)
          }
        }
        return [{ t: 'slot', name, values, attrs }]
      }
      case 'include': {
        const target = resolve(ctx.file, n.src)
        if (!files[target]) return []
        const scope = fileModules(target)
        return renderList(files[target], { file: target, data: ctx.data, scope, env: () => mkEnv(ctx.data, scope) })
      }
      case 'tis': {
        const name = evalValue(n.is, ctx.env())
        const found = name ? lookupTemplate(ctx.file, name) : null
        if (!found) return []
        const d = n.data ? evalExpr(n.data, ctx.env()) : {}
        const scope = fileModules(found.file)
        return renderList(found.def.children, { file: found.file, data: d, scope, env: () => mkEnv(d, scope) })
      }
      default: throw new Error('render ' + n.k)
    }
  }

  function renderChildrenWithSlots(n, ctx) {
    // children that carry slot: value scopes are rendered once per emulated slot instance of the PARENT;
    // the parent decides the instances (opts.slotValues); this function renders plain children
    return renderList(n.children, ctx)
  }

  function renderElement(n, ctx) {
    const env = ctx.env()
    const node = { t: 'el', tag: n.tag, generics: {}, attrs: [], slot: undefined, children: [] }
    for (const a of n.attrs) {
      const val = a.v === undefined ? undefined : evalValue(a.v, env)
      switch (a.f) {
        case 'plain': node.attrs.push(['attr', a.name, a.v === undefined ? true : val]); break
        case 'class': node.attrs.push(['class', null, val]); break
        case 'style': node.attrs.push(['style', null, val]); break
        case 'id': node.attrs.push(['id', null, val]); break
        case 'slot': node.slot = Y(val); break // the slot name is a string (null / undefined: the default slot)
        case 'data-': node.attrs.push(['dataset', dashToCamel(a.name.toLowerCase()), a.v === undefined ? true : val]); break
        case 'data:': node.attrs.push(['dataset', a.name, a.v === undefined ? true : val]); break
        case 'mark': node.attrs.push(['mark', a.name, a.v === undefined ? true : val]); break
        case 'event': node.attrs.push(['event', a.name, a.v === undefined ? '' : val, { catch: a.prefix.includes('catch'), mut: a.prefix.includes('mut-bind'), capture: a.prefix.startsWith('capture-') }]); break
        case 'model': node.attrs.push(['attr', dashToCamel(a.name), val]); break
        case 'change': if (typeof a.v === 'object' && a.v !== null) node.attrs.push(['change', dashToCamel(a.name), val]); break // (a static value is not a listener)
        case 'worklet': node.attrs.push(['worklet', dashToCamel(a.name), val]); break
        case 'generic': node.generics[a.name] = val; break
        case 'extra-attr': node.attrs.push(['extra-attr', a.name, val]); break
        default: throw new Error('family ' + a.f)
      }
    }
    // children: those with slot: scopes see the slot values of each emulated instance
    const scoped = n.children.some((c) => c.slotScopes && c.slotScopes.length)
    if (scoped) {
      const names = []
      for (const c of n.children) for (const [nm] of c.slotScopes || []) if (!names.includes(dashToCamel(nm))) names.push(dashToCamel(nm))
      node.slotValueNames = names
      const instances = opts.slotValues ? opts.slotValues(n) : [Object.create(null)]
      for (const V of instances) {
        // every child is rendered per instance; a child's own slot: attributes bind names for its subtree
        const list = n.children
        const rendered = renderListScoped(list, ctx, V)
        node.children.push(...rendered)
      }
    } else {
      node.children = renderList(n.children, ctx)
    }
    return node
  }

  function renderListScoped(list, ctx, V) {
    // like renderList, but each child with slot: attributes gets those names bound from V
    const wrap = list.map((c) => {
      if (!(c.slotScopes && c.slotScopes.length)) return c
      return Object.assign({}, c, { __V: V })
    })
    const out = []
    for (const c of wrap) {
      if (c.__V) {
        const scope = Object.assign({}, ctx.scope)
        for (const [nm, alias] of c.slotScopes) scope[alias === undefined ? dashToCamel(nm) : alias] = (c.__V === null || c.__V === undefined) ? undefined : c.__V[dashToCamel(nm)]
        const c2 = Object.assign({}, ctx, { scope, env: () => mkEnv(ctx.data, scope) })
        out.push(...renderNodeMaybeChain([c], c2))
      } else out.push(...renderNodeMaybeChain([c], ctx))
    }
    return out
  }
  const renderNodeMaybeChain = (list, ctx) => renderList(list, ctx)

  const scope0 = fileModules(path)
  return renderList(files[path], { file: path, data, scope: scope0, env: () => mkEnv(data, scope0) })
}

// reference path resolution (POSIX-like): directory of the referrer, root on leading '/', '.' / '..' folded, one optional suffix dropped
function refNormalize(p) {
  const out = []
  for (const seg of p.split('/')) {
    if (seg === '.') continue
    if (seg === '..') { out.pop(); continue }
    out.push(seg)
  }
  return out.join('/')
}
function refResolve(base, rel, suffix = '.wxml') {
  let r = rel
  if (r.endsWith(suffix)) r = r.slice(0, -suffix.length)
  if (r.startsWith('/')) return refNormalize(r.slice(1))
  const dir = base.split('/').slice(0, -1)
  return refNormalize([...dir, r].join('/'))
}
function refResolveScript(base, rel) {
  if (rel.startsWith('/')) return refNormalize(rel.slice(1))
  const dir = base.split('/').slice(0, -1)
  return refNormalize([...dir, rel].join('/'))
}

// ---------------------------------------------------------------------------------------------
// comparison of canonical trees

function normActual(nodes) {
  // actual: output of rt_record.flatten(nodes, true)
  return nodes.map((n) => {
    if (n.t === 'text') return { t: 'text', text: n.text }
    if (n.t === 'slot') return { t: 'slot', name: n.name, values: n.values, attrs: (n.attrs || []).map((a) => (a[0] === 'event' ? ['event', a[1], a[2], { catch: a[3].catch, mut: a[3].mut, capture: a[3].capture }] : [a[0], a[1], a[2]])) }
    if (n.t === 'virtual') return { t: 'virtual', slot: n.slot, children: normActual(n.children) }
    const attrs = n.attrs.map((a) => {
      if (a[0] === 'event') return ['event', a[1], a[2], { catch: a[3].catch, mut: a[3].mut, capture: a[3].capture }]
      return [a[0], a[1], a[2]]
    })
    const o = { t: 'el', tag: n.tag, generics: n.generics || {}, attrs, slot: n.slot, children: normActual(n.children) }
    if (n.slotValueNames !== undefined) o.slotValueNames = n.slotValueNames
    return o
  })
}
function sortAttrs(tree) {
  for (const n of tree) {
    if (n.attrs) n.attrs = n.attrs.slice().sort((a, b) => (a[0] + '\u0000' + a[1] < b[0] + '\u0000' + b[1] ? -1 : 1))
    if (n.children) sortAttrs(n.children)
  }
  return tree
}

function showValue(v, depth = 0) {
  if (typeof v === 'function') return 'function'
  if (Object.is(v, -0)) return '-0'
  if (typeof v === 'string') return JSON.stringify(v)
  if (typeof v !== 'object' || v === null) return String(v)
  if (depth > 3) return '…'
  if (Array.isArray(v)) return '[' + v.map((x) => showValue(x, depth + 1)).join(',') + ']'
  return '{' + Object.keys(v).map((k) => k + ':' + showValue(v[k], depth + 1)).join(',') + '}'
}
function showTree(tree) {
  return tree.map((n) => {
    if (n.t === 'text') return JSON.stringify(n.text)
    if (n.t === 'slot') return `<slot name=${JSON.stringify(n.name)} ${n.values.map(([k, v]) => k + '=' + showValue(v)).join(' ')}${(n.attrs || []).length ? ' | ' + n.attrs.map((a) => `${a[0]}${a[1] === null ? '' : ':' + a[1]}=${showValue(a[2])}${a[3] ? JSON.stringify(a[3]) : ''}`).join(' ') : ''}>`
    if (n.t === 'virtual') return `<virtual slot=${showValue(n.slot)}>${showTree(n.children)}</virtual>`
    const attrs = n.attrs.map((a) => `${a[0]}${a[1] === null ? '' : ':' + a[1]}=${showValue(a[2])}${a[3] ? JSON.stringify(a[3]) : ''}`).join(' ')
    const gen = Object.keys(n.generics || {}).length ? ' generics=' + JSON.stringify(n.generics) : ''
    return `<${n.tag}${attrs ? ' ' + attrs : ''}${gen}${n.slot !== undefined ? ' slot=' + showValue(n.slot) : ''}${n.slotValueNames ? ' slotValueNames=' + JSON.stringify(n.slotValueNames) : ''}>${showTree(n.children)}</${n.tag}>`
  }).join('')
}

function sameValue(x, y, depth = 0) {
  if (Object.is(x, y)) return true
  if (typeof x !== typeof y) return false
  if (typeof x === 'function') return String(x) === String(y)
  if (typeof x !== 'object' || x === null || y === null) return false
  if (depth > 6) return true
  if (Array.isArray(x) !== Array.isArray(y)) return false
  if (Array.isArray(x)) return x.length === y.length && x.every((v, i) => sameValue(v, y[i], depth + 1))
  const kx = Object.keys(x); const ky = Object.keys(y)
  return kx.length === ky.length && kx.every((k, i) => k === ky[i] && sameValue(x[k], y[k], depth + 1))
}
function sameTree(a, b) {
  if (a.length !== b.length) return false
  for (let i = 0; i < a.length; i++) {
    const x = a[i]; const y = b[i]
    if (x.t !== y.t) return false
    if (x.t === 'text') { if (x.text !== y.text) return false; continue }
    if (x.t === 'slot') { if (x.name !== y.name || !sameValue(x.values, y.values) || !sameValue(x.attrs || [], y.attrs || [])) return false; continue }
    if (x.t === 'virtual') { if (!Object.is(x.slot, y.slot) || !sameTree(x.children, y.children)) return false; continue }
    if (x.tag !== y.tag || !sameValue(x.generics || {}, y.generics || {}) || !sameValue(x.slot, y.slot)) return false
    if (!sameValue(x.attrs, y.attrs)) return false
    if (!sameValue(x.slotValueNames, y.slotValueNames)) return false
    if (!sameTree(x.children, y.children)) return false
  }
  return true
}

module.exports = { text, comment, el, block, tdef, tis, include, imp, slot, wxs, A, E, dashToCamel, print, Printer, SYNTAX_VARIANTS, render, refResolve, refNormalize, refResolveScript, normActual, sortAttrs, showTree, showValue, sameTree, sameValue, evalExpr, evalValue }
