'use strict'
// Shared machinery of the JavaScript explorers: report accumulation, sharding over worker
// processes, and the bridge to the Rust harness (`gev batch`).
const fs = require('fs')
const path = require('path')
const cp = require('child_process')
const crypto = require('crypto')

const ROOT = path.resolve(__dirname, '..', '..')
const WORK = path.join(ROOT, '.work')
const GEV = path.join(ROOT, '.build', 'release', 'gev')

function hashOf(x) {
  return crypto.createHash('sha1').update(typeof x === 'string' ? x : JSON.stringify(x)).digest('hex').slice(0, 16)
}

class Report {
  constructor() {
    this.states = 0
    this.transitions = 0
    this.evaluations = 0
    this.nontrivial = 0
    this.outcomes = new Set()
    this.nontrivialSet = new Set()
    this.samples = []
    this.violations = new Map()
    this.counters = {}
    this.machineryErrors = []
  }
  count(k, n = 1) { this.counters[k] = (this.counters[k] || 0) + n }
  outcome(x) { if (this.outcomes.size < 500000) this.outcomes.add(hashOf(x)) }
  nontrivialCase(x) { this.nontrivial += 1; if (this.nontrivialSet.size < 1000000) this.nontrivialSet.add(hashOf(x)) }
  sample(x) { if (this.samples.length < 4) this.samples.push(x) }
  violation(fingerprint, what, replay) {
    const e = this.violations.get(fingerprint)
    if (e) {
      e.occurrences += 1
      if (JSON.stringify(replay).length < JSON.stringify(e.replay).length) { e.replay = replay; e.what = what }
      return
    }
    if (this.violations.size < 400) this.violations.set(fingerprint, { fingerprint, what, replay, occurrences: 1 })
    else this.count('violations_beyond_cap')
  }
  toPartial() {
    return {
      states: this.states, transitions: this.transitions, evaluations: this.evaluations, nontrivial: this.nontrivial,
      outcomes: [...this.outcomes], nontrivialSet: [...this.nontrivialSet], samples: this.samples,
      violations: [...this.violations.values()], counters: this.counters, machineryErrors: this.machineryErrors,
    }
  }
  mergePartial(p) {
    this.states += p.states; this.transitions += p.transitions; this.evaluations += p.evaluations; this.nontrivial += p.nontrivial
    for (const o of p.outcomes) this.outcomes.add(o)
    for (const o of p.nontrivialSet) this.nontrivialSet.add(o)
    for (const s of p.samples) if (this.samples.length < 10) this.samples.push(s)
    for (const v of p.violations) {
      const e = this.violations.get(v.fingerprint)
      if (e) {
        e.occurrences += v.occurrences
        if (JSON.stringify(v.replay).length < JSON.stringify(e.replay).length) { e.replay = v.replay; e.what = v.what }
      } else this.violations.set(v.fingerprint, v)
    }
    for (const k of Object.keys(p.counters)) this.count(k, p.counters[k])
    this.machineryErrors.push(...p.machineryErrors)
  }
  toResult(property, rule, bound, exhaustive, assumptions, extra) {
    const coverage = Object.assign({
      states: Math.max(1, this.states), transitions: Math.max(1, this.transitions),
      traces_validated_against_impl: this.evaluations, evaluations: this.evaluations,
      distinct_nontrivial: this.nontrivialSet.size, nontrivial_evaluations: this.nontrivial,
      distinct_outcomes: this.outcomes.size, rule, samples: this.samples, bound, exhaustive, counters: this.counters,
    }, extra || {})
    return { property, coverage, violations: [...this.violations.values()], assumptions, machinery_errors: this.machineryErrors.slice(0, 20) }
  }
}

function argAfter(flag, dflt) {
  const i = process.argv.indexOf(flag)
  return i >= 0 && i + 1 < process.argv.length ? process.argv[i + 1] : dflt
}

function nThreads() {
  const v = parseInt(process.env.VERIF_THREADS || '', 10)
  return v > 0 ? v : Math.max(1, require('os').cpus().length)
}

let batchCounter = 0
/** Compile jobs with the real compiler: jobs = [{id, files:[[path,src]], scripts:[[path,src]], want:[...]}] */
function compileBatch(jobs, threads) {
  fs.mkdirSync(WORK, { recursive: true })
  const tag = `${process.pid}.${batchCounter++}`
  const inP = path.join(WORK, `batch.${tag}.in.json`)
  const outP = path.join(WORK, `batch.${tag}.out.json`)
  fs.writeFileSync(inP, JSON.stringify({ jobs, threads: threads || 1 }))
  try {
    // (the time limit turns a non-terminating compiler into a machinery failure of this engine; C01 owns termination)
    cp.execFileSync(GEV, ['batch', inP, outP], { stdio: ['ignore', 'ignore', 'inherit'], maxBuffer: 1 << 30, timeout: 900000 })
    return JSON.parse(fs.readFileSync(outP, 'utf8'))
  } finally {
    try { fs.unlinkSync(inP) } catch (e) { /* ignore */ }
    try { fs.unlinkSync(outP) } catch (e) { /* ignore */ }
  }
}

/**
 * Run `script` as `nshards` worker processes (`--shard i --of n --partial file`), merge their partial reports.
 * The worker side calls `runShard`.
 */
function runSharded(script, extraArgs, nodeBin, nodeArgs) {
  const n = nThreads()
  fs.mkdirSync(WORK, { recursive: true })
  const base = path.basename(script).replace(/\W/g, '_')
  const procs = []
  for (let i = 0; i < n; i++) {
    const partial = path.join(WORK, `${base}.${process.pid}.shard${i}.json`)
    const child = cp.spawn(nodeBin || process.execPath, [...(nodeArgs || ['--stack-size=4000']), script, ...extraArgs, '--shard', String(i), '--of', String(n), '--partial', partial], { stdio: ['ignore', 'inherit', 'inherit'] })
    procs.push(new Promise((resolve) => child.on('exit', (code, sig) => resolve({ i, code, sig, partial }))))
  }
  return Promise.all(procs).then((rs) => {
    const rep = new Report()
    for (const r of rs) {
      if (r.code !== 0 || !fs.existsSync(r.partial)) {
        rep.machineryErrors.push(`worker ${r.i} of ${script} exited with code ${r.code} signal ${r.sig}`)
        continue
      }
      rep.mergePartial(JSON.parse(fs.readFileSync(r.partial, 'utf8')))
      fs.unlinkSync(r.partial)
    }
    return rep
  })
}

function shardInfo() {
  const i = process.argv.indexOf('--shard')
  if (i < 0) return null
  return { shard: parseInt(process.argv[i + 1], 10), of: parseInt(argAfter('--of', '1'), 10), partial: argAfter('--partial', null) }
}

function writeResult(file, obj) { fs.writeFileSync(file, JSON.stringify(obj)) }

module.exports = { ROOT, WORK, GEV, Report, hashOf, argAfter, nThreads, compileBatch, runSharded, shardInfo, writeResult }
