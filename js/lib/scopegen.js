'use strict'
// Scope skeletons for C05 (and, printed through the stringifier, for C14).
const T = require('./tmplmodel')
const M = require('./exprmodel')
const { text, el, block, tdef, tis, wxs, slot, A, E } = T
const id = M.id

const NAMES = ['item', 'index', 'a', 'm', 'v', 'x']

/** expression forms with the identifier under test at one child position */
function forms() {
  const o = id('o'); const k = id('k'); const f = id('fn'); const c1 = id('c1'); const c0 = id('c0')
  return [
    ['identifier', (n) => n],
    ['array[0]', (n) => M.arr([n])],
    ['array-after-1-hole', (n) => M.arr([{ hole: true }, n])],
    ['array-after-2-holes', (n) => M.arr([{ hole: true }, { hole: true }, n])],
    ['array-after-element-and-hole', (n) => M.arr([o, { hole: true }, n])],
    ['array[1]', (n) => M.arr([o, n])],
    ['array-spread', (n) => M.arr([{ spread: M.arr([n]) }])],
    ['array-after-spread', (n) => M.arr([{ spread: M.arr([o]) }, n])],
    ['call-argument-0', (n) => M.call(f, [n])],
    ['call-argument-1', (n) => M.call(f, [o, n])],
    ['call-callee', (n) => M.call(M.idx(M.arr([n]), M.lit('0')), [])],
    ['object-value', (n) => M.obj([{ key: 'p', value: n }])],
    ['object-second-value', (n) => M.obj([{ key: 'p', value: o }, { key: 'q', value: n }])],
    ['object-spread', (n) => M.obj([{ spread: M.obj([{ key: 'p', value: n }]) }])],
    ['object-after-spread', (n) => M.obj([{ spread: o }, { key: 'q', value: n }])],
    ['dynamic-index', (n) => M.idx(M.obj([{ key: 'sentinel', value: M.lit("'hit'") }]), M.bin('&&', n, M.lit("'sentinel'")))],
    ['index-object', (n) => M.idx(M.arr([n]), M.lit('0'))],
    ['member-object', (n) => M.mem(M.obj([{ key: 'p', value: n }]), 'p')],
    ['member-of-name', (n) => M.mem(n, 'length')],
    ['cond-test', (n) => M.cond(n, M.lit("'yes'"), M.lit("'no'"))],
    ['cond-true-branch', (n) => M.cond(c1, n, o)],
    ['cond-false-branch', (n) => M.cond(c0, o, n)],
    ['plus-left', (n) => M.bin('+', n, M.lit("'!'"))],
    ['plus-right', (n) => M.bin('+', M.lit("'!'"), n)],
    ['not', (n) => M.un('!', n)],
    ['typeof', (n) => M.un('typeof', n)],
    ['and-right', (n) => M.bin('&&', c1, n)],
    ['or-right', (n) => M.bin('||', c0, n)],
    ['nullish-left', (n) => M.bin('??', n, o)],
    ['nullish-right', (n) => M.bin('??', id('nil'), n)],
    ['strict-equal', (n) => M.bin('===', n, n)],
    ['compare', (n) => M.bin('<', n, k)],
    ['bitor', (n) => M.bin('|', n, M.lit('0'))],
    ['parenthesised', (n) => M.grp(n)],
    ['nested-array-object', (n) => M.arr([M.obj([{ key: 'p', value: M.arr([{ hole: true }, n]) }])])],
  ]
}

const DATA = { item: 'D.item', index: 'D.index', a: 'D.a', m: 'D.m', v: 'D.v', x: 'D.x', y: 'D.y', o: 'D.o', k: 3, c1: 1, c0: 0, nil: null, fn: function fn() { return ['fn', ...arguments] }, list: ['L0', 'L1'], list2: ['M0'] }

/** scope introducers: (body) -> nodes */
function introducers() {
  return [
    ['for', (b) => [el('f', [], b, { wxFor: { list: E(id('list')) } })]],
    ['for-renamed', (b) => [el('f', [], b, { wxFor: { list: E(id('list')), item: 'x', index: 'y' } })]],
    ['for-item-named-index', (b) => [el('f', [], b, { wxFor: { list: E(id('list')), item: 'index' } })]],
    ['for-item-shadows-data', (b) => [el('f', [], b, { wxFor: { list: E(id('list2')), item: 'a', index: 'v' } })]],
    ['for-block', (b) => [block(b, { wxFor: { list: E(id('list2')), item: 'm' } })]],
    ['slot-scope', (b) => [el('c', [], [el('d', [], b, { slotScopes: [['v', undefined]] })])]],
    ['slot-scope-alias-item', (b) => [el('c', [], [el('d', [], b, { slotScopes: [['v', 'item']] })])]],
    ['slot-scope-two', (b) => [el('c', [], [el('d', [], b, { slotScopes: [['a', undefined], ['v', 'x']] })])]],
  ]
}

const probe = (e) => el('r', [A.plain('val', E(e))])
const WXS_M = wxs('m', 'exports.k = "m.k"; exports.length = "m.length"')

function corpus(depth) {
  const out = []
  const F = forms()
  const I = introducers()
  const push = (name, main) => out.push({ name, main, files: {}, scripts: {} })
  const nestings = []
  // depth 0: no introducer; then every nesting of introducers up to `depth`
  nestings.push({ name: 'top', wrap: (b) => b })
  let level = [{ name: '', wrap: (b) => b }]
  for (let d = 1; d <= depth; d++) {
    const next = []
    for (const outer of level) for (const [iname, ifn] of I) next.push({ name: (outer.name ? outer.name + '>' : '') + iname, wrap: (b) => outer.wrap(ifn(b)) })
    nestings.push(...next)
    level = next
  }
  for (const nest of nestings) {
    for (const [fname, ffn] of F) {
      for (const nm of NAMES) {
        const e = ffn(id(nm))
        // with and without a file-level script module named m
        push(`${nest.name}|${fname}|${nm}`, nest.wrap([probe(e)]))
        if (nm === 'm' || fname === 'identifier') push(`wxs+${nest.name}|${fname}|${nm}`, [WXS_M, ...nest.wrap([probe(e)])])
        // (a script module is visible in the whole file, also before its <wxs> tag)
        if (nm === 'm') push(`wxs-at-end+${nest.name}|${fname}|${nm}`, [...nest.wrap([probe(e)]), WXS_M])
      }
    }
    // mixed text and template data positions
    for (const nm of NAMES) {
      push(`${nest.name}|mixed-text|${nm}`, nest.wrap([text('a', E(id(nm)), 'b')]))
      push(`${nest.name}|template-data-value|${nm}`, [tdef('t', [probe(id('p'))]), ...nest.wrap([tis('t', M.obj([{ key: 'p', value: id(nm) }]))])])
      push(`${nest.name}|template-data-shorthand|${nm}`, [tdef('t', [probe(id(nm))]), ...nest.wrap([tis('t', M.obj([{ short: nm }]))])])
      push(`${nest.name}|for-list-expression|${nm}`, nest.wrap([el('g', [], [probe(id('q'))], { wxFor: { list: E(M.arr([id(nm)])), item: 'q', index: nm === 'index' ? 'qq' : undefined } })]))
      push(`${nest.name}|for-own-attribute|${nm}`, nest.wrap([el('g', [A.plain('val', E(id(nm)))], [], { wxFor: { list: E(id('list2')) } })]))
      // every attribute family of one element, each family with a valueless attribute in front of the bound one
      push(`${nest.name}|attribute-families-after-valueless|${nm}`, nest.wrap([el('r', [A.event('bind', 't0'), A.event('bind', 'tap', E(id(nm))), A.event('catch', 't1'), A.event('catch', 'tap2', E(id(nm))), A.dataColon('flag'), A.dataColon('id', E(id(nm))), A.dataHyphen('g'), A.dataHyphen('h', E(id(nm))), A.mark('f'), A.mark('k', E(id(nm))), A.plain('w'), A.plain('val', E(id(nm)))])]))
      push(`${nest.name}|wx-if-condition|${nm}`, nest.wrap([el('g', [], [text('T')], { wxIf: E(M.bin('===', id(nm), M.lit("'D." + nm + "'"))) }), el('h', [], [], { wxElse: true })]))
      push(`${nest.name}|slot-element-own-attribute|${nm}`, nest.wrap([el('c', [], [el('d', [A.plain('val', E(id(nm)))], [], { slotScopes: [[nm === 'v' ? 'v' : 'zz', undefined]] })])]))
    }
  }
  // non-leak placements
  for (const [iname, ifn] of I) {
    for (const nm of NAMES) {
      push(`after:${iname}|sibling|${nm}`, [...ifn([probe(id(nm))]), probe(id(nm))])
      push(`after:${iname}|following-text|${nm}`, [...ifn([text('in')]), text(E(id(nm)))])
      push(`inside:${iname}|template-definition-body|${nm}`, [WXS_M, tdef('t', [probe(id(nm))]), ...ifn([tis('t', M.obj([{ key: 'zz', value: M.lit('1') }]))])])
      push(`inside:${iname}|template-definition-body-module-after-the-definition|${nm}`, [tdef('t', [probe(id(nm))]), WXS_M, ...ifn([tis('t', M.obj([{ key: 'zz', value: M.lit('1') }]))])])
      push(`inside:${iname}|template-definition-body-module-at-the-end|${nm}`, [tdef('t', [probe(id(nm))]), ...ifn([tis('t', M.obj([{ key: 'zz', value: M.lit('1') }]))]), WXS_M])
      push(`inside:${iname}|template-definition-written-inside|${nm}`, [...ifn([tdef('t', [probe(id(nm))]), tis('t')])])
      push(`two:${iname}|second-sibling-scope|${nm}`, [...ifn([probe(id(nm))]), ...ifn([probe(M.arr([{ hole: true }, id(nm)]))])])
    }
  }
  // siblings inside the same parent as a slot-scoped child (the child's scope must not reach them, and
  // scopes introduced by later siblings must still resolve correctly)
  const slotKids = [
    ['one', [['v', undefined]]],
    ['aliased', [['v', 'item']]],
    ['two', [['a', undefined], ['v', 'x']]],
  ]
  for (const [kn, scopes] of slotKids) {
    for (const nm of NAMES) {
      push(`same-parent:${kn}|sibling-after-slot-scoped-child|${nm}`, [el('c', [], [el('d', [], [probe(id(nm))], { slotScopes: scopes }), probe(id(nm))])])
      push(`same-parent:${kn}|for-after-slot-scoped-child|${nm}`, [el('c', [], [el('d', [], [text('in')], { slotScopes: scopes }), el('f', [], [probe(M.arr([id(nm), id('item'), id('index')]))], { wxFor: { list: E(id('list')) } })])])
      push(`same-parent:${kn}|slot-scoped-after-slot-scoped|${nm}`, [el('c', [], [el('d', [], [text('in')], { slotScopes: scopes }), el('e', [], [probe(M.arr([id(nm), id('v')]))], { slotScopes: [['v', undefined]] })])])
      push(`same-parent:${kn}|self-closing-then-for|${nm}`, [el('c', [], [el('d', [A.plain('p', E(id(nm)))], [], { slotScopes: scopes }), el('f', [], [probe(M.arr([id(nm), id('item')]))], { wxFor: { list: E(id('list2')), item: 'item' } })])])
    }
  }
  // two slot-scoped siblings whose value names and aliases collide in every way (value = value, alias = earlier value,
  // alias = earlier alias, value = earlier alias), the second one with a loop inside
  const decls = [[['a', undefined]], [['v', undefined]], [['v', 'a']], [['a', 'v']], [['zz', 'a']], [['a', undefined], ['v', 'x']]]
  for (const s1 of decls) for (const s2 of decls) {
    const dn = (d) => d.map((x) => x[0] + (x[1] ? '=' + x[1] : '')).join('+')
    for (const nm of NAMES) {
      push(`two-slot-scoped:${dn(s1)}:${dn(s2)}|loop-in-second|${nm}`, [el('c', [], [el('d', [], [probe(id(nm))], { slotScopes: s1 }), el('e', [], [block([probe(M.arr([id(nm), id('item')]))], { wxFor: { list: E(id('list')) } })], { slotScopes: s2 })])])
    }
    push(`two-slot-scoped:${dn(s1)}:${dn(s2)}|plain-in-second`, [el('c', [], [el('d', [], [probe(M.arr([id('a'), id('v')]))], { slotScopes: s1 }), el('e', [], [probe(M.arr([id('a'), id('v'), id('x'), id('zz')]))], { slotScopes: s2 })])])
  }
  // a <slot> element that carries slot: references (it has no children, its scopes must end with it)
  for (const scopes of decls.slice(0, 4)) for (const nm of NAMES) {
    const dn = scopes.map((x) => x[0] + (x[1] ? '=' + x[1] : '')).join('+')
    push(`slot-element-with-scopes:${dn}|sibling|${nm}`, [el('c', [], [slot('s', [], { slotScopes: scopes }), probe(id(nm))])])
    push(`slot-element-with-scopes:${dn}|for-sibling|${nm}`, [el('c', [], [slot('s', [], { slotScopes: scopes }), el('f', [], [probe(M.arr([id(nm), id('item')]))], { wxFor: { list: E(id('list')) } })])])
    push(`slot-element-with-scopes:${dn}|own-attributes|${nm}`, [el('c', [], [slot(E(id(nm)), [['val', E(M.arr([id(nm), id('a'), id('v')]))]], { slotScopes: scopes })])])
    push(`slot-element-with-scopes:${dn}|top-level|${nm}`, [slot(undefined, [], { slotScopes: scopes }), probe(id(nm))])
  }
  // an empty-bodied scoped element followed by a scoped sibling with other names
  for (const nm of NAMES) {
    push(`empty-for-then-for|sibling|${nm}`, [block([], { wxFor: { list: E(id('list')), item: 'p' } }), block([probe(M.arr([id(nm), id('q')]))], { wxFor: { list: E(id('list2')), item: 'q' } })])
  }
  return out
}

const SLOTS = () => [{ v: 'V.v', a: 'V.a', zz: 'V.zz' }]


module.exports = { NAMES, forms, introducers, corpus, DATA, SLOTS }
