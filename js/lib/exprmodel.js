'use strict'
// Expression model: trees over the supported grammar, printers (minimal parentheses per the
// ECMAScript precedence table, and fully parenthesised reference text), enumerators.

// precedence levels (higher binds tighter)
const LV = { cond: 2, nullish: 3, or: 3, and: 4, bitor: 5, bitxor: 6, bitand: 7, eq: 8, rel: 9, shift: 10, add: 11, mul: 12, unary: 14, member: 17, primary: 18 }

const BINARY = [
  ['*', 'mul'], ['/', 'mul'], ['%', 'mul'], ['+', 'add'], ['-', 'add'],
  ['<<', 'shift'], ['>>', 'shift'], ['>>>', 'shift'],
  ['<', 'rel'], ['>', 'rel'], ['<=', 'rel'], ['>=', 'rel'], ['instanceof', 'rel'],
  ['==', 'eq'], ['!=', 'eq'], ['===', 'eq'], ['!==', 'eq'],
  ['&', 'bitand'], ['^', 'bitxor'], ['|', 'bitor'], ['&&', 'and'], ['||', 'or'], ['??', 'nullish'],
]
const UNARY = ['!', '~', '+', '-', 'typeof', 'void']

const bin = (op, l, r) => ({ k: 'bin', op, l, r })
const un = (op, e) => ({ k: 'un', op, e })
const cond = (c, t, f) => ({ k: 'cond', c, t, f })
const mem = (o, name) => ({ k: 'mem', o, name })
const idx = (o, i) => ({ k: 'idx', o, i })
const call = (f, args) => ({ k: 'call', f, args })
const arr = (items) => ({ k: 'arr', items }) // item: expr | {hole:true} | {spread: expr}
const obj = (fields) => ({ k: 'obj', fields }) // field: {key, value} | {short: name} | {spread: expr}
const id = (name) => ({ k: 'id', name })
const lit = (text) => ({ k: 'lit', text }) // spelled literal
const grp = (e) => ({ k: 'grp', e }) // explicit source parentheses

function levelOf(e) {
  switch (e.k) {
    case 'bin': return LV[BINARY.find((b) => b[0] === e.op)[1]]
    case 'un': return LV.unary
    case 'cond': return LV.cond
    case 'mem': case 'idx': case 'call': return LV.member
    default: return LV.primary
  }
}
const isLogicMix = (parentOp, child) => child.k === 'bin' && ((parentOp === '??' && (child.op === '||' || child.op === '&&')) || ((parentOp === '||' || parentOp === '&&') && child.op === '??'))

function wrapIf(c, s) { return c ? '(' + s + ')' : s }

/** minimal parentheses: the compiler has to get precedence and associativity right */
function printMin(e) {
  switch (e.k) {
    case 'id': return e.name
    case 'lit': return e.text
    case 'grp': return '(' + printMin(e.e) + ')'
    case 'un': {
      const inner = printMin(e.e)
      const need = levelOf(e.e) < LV.unary
      const s = wrapIf(need, inner)
      const wordy = e.op === 'typeof' || e.op === 'void'
      const clash = !need && (e.op === '+' || e.op === '-') && (s[0] === e.op)
      return e.op + (wordy || clash ? ' ' : '') + s
    }
    case 'bin': {
      const L = levelOf(e)
      const l = wrapIf(levelOf(e.l) < L || isLogicMix(e.op, e.l), printMin(e.l))
      const r = wrapIf(levelOf(e.r) <= L || isLogicMix(e.op, e.r), printMin(e.r))
      return l + ' ' + e.op + ' ' + r
    }
    case 'cond': {
      const c = wrapIf(levelOf(e.c) <= LV.cond, printMin(e.c))
      return c + ' ? ' + printMin(e.t) + ' : ' + printMin(e.f)
    }
    case 'mem': return memberObj(e.o) + '.' + e.name
    case 'idx': return memberObj(e.o) + '[' + printMin(e.i) + ']'
    case 'call': return memberObj(e.f) + '(' + e.args.map(printMin).join(', ') + ')'
    case 'arr': return '[' + e.items.map((it) => (it.hole ? '' : it.spread ? '...' + printMin(it.spread) : printMin(it))).join(', ') + (e.items.length && e.items[e.items.length - 1].hole ? ',' : '') + ']'
    case 'obj': return '{' + e.fields.map((f) => (f.spread ? '...' + printMin(f.spread) : f.short ? f.short : f.key + ': ' + printMin(f.value))).join(', ') + '}'
    default: throw new Error('bad node ' + e.k)
  }
}
function memberObj(o) {
  const s = printMin(o)
  const numeric = o.k === 'lit' && /^[0-9.]/.test(o.text)
  return wrapIf(levelOf(o) < LV.member || numeric || o.k === 'obj', s)
}

/** fully parenthesised print of the same tree in template syntax */
function printFull(e) {
  switch (e.k) {
    case 'id': return e.name
    case 'lit': return e.text
    case 'grp': return '(' + printFull(e.e) + ')'
    case 'un': return '(' + e.op + ' ' + printFull(e.e) + ')'
    case 'bin': return '(' + printFull(e.l) + ' ' + e.op + ' ' + printFull(e.r) + ')'
    case 'cond': return '(' + printFull(e.c) + ' ? ' + printFull(e.t) + ' : ' + printFull(e.f) + ')'
    case 'mem': return '(' + printFull(e.o) + ').' + e.name
    case 'idx': return '(' + printFull(e.o) + ')[' + printFull(e.i) + ']'
    case 'call': return '(' + printFull(e.f) + ')(' + e.args.map(printFull).join(', ') + ')'
    case 'arr': return '[' + e.items.map((it) => (it.hole ? '' : it.spread ? '...(' + printFull(it.spread) + ')' : printFull(it))).join(', ') + (e.items.length && e.items[e.items.length - 1].hole ? ',' : '') + ']'
    case 'obj': return '{' + e.fields.map((f) => (f.spread ? '...(' + printFull(f.spread) + ')' : f.short ? f.short : f.key + ': ' + printFull(f.value))).join(', ') + '}'
    default: throw new Error('bad node ' + e.k)
  }
}

/**
 * Reference JavaScript: the tree fully parenthesised, identifiers read through `$(name)`,
 * member reads null-safe, calls as plain functions (non-function callee -> undefined).
 * These are exactly the three deviations from plain JavaScript the property names.
 */
function printRef(e, sites) {
  const R = (x) => printRef(x, sites)
  // positions whose value the generator hoists into a temporary (`$A`): conditions of ?:, dynamic indices, left operands of ??
  const hoisted = (x) => { if (!sites) return R(x); const code = R(x); sites.push(code); return 'HOIST(' + (sites.length - 1) + ')' }
  switch (e.k) {
    case 'id': return '$.' + e.name
    case 'lit': return '(' + e.text + ')'
    case 'grp': return R(e.e)
    case 'un': return '(' + e.op + ' ' + R(e.e) + ')'
    // (the generator evaluates the left operand of ?? into a temporary as well)
    case 'bin': return '(' + (e.op === '??' ? hoisted(e.l) : R(e.l)) + ' ' + e.op + ' ' + R(e.r) + ')'
    case 'cond': return '(' + hoisted(e.c) + ' ? ' + R(e.t) + ' : ' + R(e.f) + ')'
    case 'mem': return 'GET(' + R(e.o) + ', ' + JSON.stringify(e.name) + ')'
    case 'idx': { const o = R(e.o); return 'GET(' + o + ', ' + hoisted(e.i) + ')' }
    case 'call': return 'CALL(' + R(e.f) + ', [' + e.args.map(R).join(', ') + '])'
    case 'arr': return '[' + e.items.map((it) => (it.hole ? '' : it.spread ? '...SPREAD(' + R(it.spread) + ')' : R(it))).join(', ') + (e.items.length && e.items[e.items.length - 1].hole ? ',' : '') + ']'
    case 'obj': return '({' + e.fields.map((f) => (f.spread ? '...' + R(f.spread) : f.short ? '[' + JSON.stringify(f.short) + ']: $.' + f.short : f.key + ': ' + R(f.value))).join(', ') + '})'
    default: throw new Error('bad node ' + e.k)
  }
}
// SPREAD only records that a non-array value was spread (the known lenient-spread deviation is identified by that);
// HOIST records which hoisted positions JavaScript evaluated (the known eager-evaluation deviation is identified by a
// position JavaScript skipped whose evaluation on its own throws)
const REF_PRELUDE = 'const SPREAD = (x) => { if (!Array.isArray(x)) FLAGS.nonArraySpread = true; else if (Object.keys(x).length !== x.length) FLAGS.holeySpread = true; return x }; const GET = (o, k) => (o === null || o === undefined ? undefined : o[k]); const CALL = (f, args) => (typeof f === "function" ? (0, f)(...args) : undefined);'

/** `lenientSpread`: spread like the generated code does ([].concat: a non-array is one element) — used by the TREE reference
 *  renderer, so that the spread deviation recorded under C03 is judged there and nowhere else */
function compileRef(e, lenientSpread) {
  const sites = []
  const body = printRef(e, sites)
  const siteDefs = 'const SITE = [' + sites.map((c) => '() => ' + c).join(', ') + ']; FLAGS.SITE = SITE; FLAGS.evaluated = []; const HOIST = (n) => { FLAGS.evaluated[n] = true; return SITE[n]() };'
  // eslint-disable-next-line no-new-func
  return new Function('$', 'FLAGS', (lenientSpread ? REF_PRELUDE.replace('return x };', 'return Array.isArray(x) ? x : [x] };') : REF_PRELUDE) + siteDefs + ' return ' + body)
}

function freeNames(e, out = new Set()) {
  if (!e || typeof e !== 'object') return out
  if (e.k === 'id') out.add(e.name)
  for (const key of Object.keys(e)) {
    const v = e[key]
    if (Array.isArray(v)) for (const x of v) { freeNames(x, out); if (x && x.spread) freeNames(x.spread, out); if (x && x.short) out.add(x.short); if (x && x.value) freeNames(x.value, out) } else if (v && typeof v === 'object') freeNames(v, out)
  }
  return out
}

// ---------------------------------------------------------------------------------------------
// enumeration of shapes

/** all "operator forms" with `slots` operand slots: f(operands[]) -> expr */
function forms(memberNames) {
  const fs = []
  for (const op of UNARY) fs.push({ name: 'un' + op, n: 1, make: (x) => un(op, x[0]) })
  for (const [op] of BINARY) fs.push({ name: 'bin' + op, n: 2, make: (x) => bin(op, x[0], x[1]) })
  fs.push({ name: 'cond', n: 3, make: (x) => cond(x[0], x[1], x[2]) })
  for (const m of memberNames) fs.push({ name: 'mem.' + m, n: 1, make: (x) => mem(x[0], m) })
  fs.push({ name: 'idx', n: 2, make: (x) => idx(x[0], x[1]) })
  fs.push({ name: 'call0', n: 1, make: (x) => call(x[0], []) })
  fs.push({ name: 'call1', n: 2, make: (x) => call(x[0], [x[1]]) })
  fs.push({ name: 'call2', n: 3, make: (x) => call(x[0], [x[1], x[2]]) })
  fs.push({ name: 'arr1', n: 1, make: (x) => arr([x[0]]) })
  fs.push({ name: 'arr2', n: 2, make: (x) => arr([x[0], x[1]]) })
  fs.push({ name: 'arr-hole-first', n: 1, make: (x) => arr([{ hole: true }, x[0]]) })
  fs.push({ name: 'arr-hole-mid', n: 2, make: (x) => arr([x[0], { hole: true }, x[1]]) })
  fs.push({ name: 'arr-hole-last', n: 1, make: (x) => arr([x[0], { hole: true }]) })
  fs.push({ name: 'arr-two-holes', n: 1, make: (x) => arr([{ hole: true }, { hole: true }, x[0]]) })
  fs.push({ name: 'arr-spread', n: 1, make: (x) => arr([{ spread: x[0] }]) })
  fs.push({ name: 'arr-spread-mid', n: 3, make: (x) => arr([x[0], { spread: x[1] }, x[2]]) })
  fs.push({ name: 'obj1', n: 1, make: (x) => obj([{ key: 'x', value: x[0] }]) })
  fs.push({ name: 'obj2', n: 2, make: (x) => obj([{ key: 'x', value: x[0] }, { key: 'y', value: x[1] }]) })
  fs.push({ name: 'obj-strkey', n: 1, make: (x) => obj([{ key: "'k-1'", value: x[0] }]) })
  fs.push({ name: 'obj-spread', n: 2, make: (x) => obj([{ spread: x[0] }, { key: 'x', value: x[1] }]) })
  fs.push({ name: 'obj-spread-last', n: 2, make: (x) => obj([{ key: 'x', value: x[0] }, { spread: x[1] }]) })
  fs.push({ name: 'grp', n: 1, make: (x) => grp(x[0]) })
  return fs
}

const MEMBER_NAMES = ['x', 'length', 'toString', 'constructor', '__proto__']
const LEAVES3 = ['a', 'b', 'c']

/** shapes of operator depth <= depth: every form, in every operand position every sub-shape of depth-1 */
function shapes(depth) {
  const F = forms(MEMBER_NAMES)
  const out = []
  const seen = new Set()
  const add = (e) => { const s = printFull(e); if (!seen.has(s)) { seen.add(s); out.push(e) } }
  // depth 0 / 1
  for (const l of LEAVES3.slice(0, 1)) add(id(l))
  const d1 = []
  for (const f of F) { const e = f.make(LEAVES3.slice(0, f.n).map(id)); d1.push({ f, e }); add(e) }
  if (depth < 2) return out
  // shorthand object only at depth 1
  add(obj([{ short: 'a' }, { short: 'b' }]))
  // operand i is the leaf a / b / c by position, except position `pos` which takes `sub`
  // (the sub-expression is built over a, b, c too: values collide on purpose)
  const fill = (f, pos, sub) => f.make(Array.from({ length: f.n }, (_, i) => (i === pos ? sub : id(LEAVES3[i]))))
  const d2 = []
  for (const f of F) {
    for (let pos = 0; pos < f.n; pos++) {
      for (const g of F) {
        // the sub-expression uses the leaves a,b(,c); siblings reuse names (values collide on purpose)
        const sub = g.make(LEAVES3.slice(0, g.n).map(id))
        const e = fill(f, pos, sub)
        d2.push(e)
        add(e)
      }
    }
  }
  if (depth < 3) return out
  for (const f of F) {
    for (let pos = 0; pos < f.n; pos++) {
      for (const sub of d2) add(fill(f, pos, sub))
    }
  }
  return out
}

const NUMBER_LITERALS = ['1e+3', '1E3', '1.5E-2', '0E0', '0E5', '0e-3', '0.5E1', '0', '7', '010', '017', '089', '0x1F', '0xfF', '1e3', '1e-3', '.5', '5.', '5.5', '1.2e-1', '0e12', '00', '9007199254740993', '9223372036854775807', '9223372036854775808', '18446744073709551616', '0xFFFFFFFFFFFFFFFFF', '0x7fffffffffffffff', '0x8000000000000000', '0777777777777777777777', '01000000000000000000000', '0x39ad9b1e137c4d3c66', '0xe1c58fccd800d4780', '063504125414533731572450', '1e21', '1e308', '1e309', '1e999', '123456789012345678901234567890']
const STRING_LITERALS = ["''", "'a'", "'\\n'", "'\\r'", "'\\t'", "'\\b'", "'\\f'", "'\\v'", "'\\0'", "'\\x41'", "'\\u0041'", "'\\''", "'\\\\'", "'\\\\0'", "'\\\\01\\\\\\\\0'", "'\\08'", "'\\q'", "'a\\\nb'", "'a\\\r\nb'", "'a\\\rb'", "'a\\\u2028b\\\u2029'", "'\\u00e9\\ud83d\\ude00'", "'é😀'", "'a b'", "'</a>'", "'}}'", "'{{'"]
const DQ_STRING_LITERALS = ['""', '"a"', '"\\""', '"\'"', '"\\n"', '"\\x41"']
const KEYWORD_LITERALS = ['true', 'false', 'null', 'undefined']

module.exports = { LV, BINARY, UNARY, bin, un, cond, mem, idx, call, arr, obj, id, lit, grp, levelOf, printMin, printFull, printRef, compileRef, REF_PRELUDE, freeNames, forms, shapes, MEMBER_NAMES, NUMBER_LITERALS, STRING_LITERALS, DQ_STRING_LITERALS, KEYWORD_LITERALS }
