'use strict'
// Shared by the tree-comparing explorers (C04, C05, C13, C14): compile a model case, run it on the
// recording runtime under data environments, compare with the reference renderer.

const C = require('./common')
const RT = require('./rt_record')
const T = require('./tmplmodel')

const MAIN = 'd/m'
const PID = { id: 'C04' }
function setProperty(id) { PID.id = id }
const SLOT_INSTANCES = () => [{ u: 'SV1', uV: 'SV2' }, { u: 0, uV: undefined }]

function buildJob(cs, syntax, id) {
  const files = [[MAIN, T.print(cs.main, syntax).text]]
  for (const p of Object.keys(cs.files)) files.push([p, T.print(cs.files[p], syntax).text])
  const scripts = Object.keys(cs.scripts).map((p) => [p, cs.scripts[p]])
  return { id, files, scripts, want: ['groups'] }
}

function modelFiles(cs) {
  const files = { [MAIN]: cs.main }
  for (const p of Object.keys(cs.files)) files[p] = cs.files[p]
  return files
}

function firstDiff(exp, act) {
  // a short description of where two trees differ
  const se = T.showTree(exp); const sa = T.showTree(act)
  let i = 0
  while (i < se.length && i < sa.length && se[i] === sa[i]) i++
  return `expected …${se.slice(Math.max(0, i - 40), i + 80)}… got …${sa.slice(Math.max(0, i - 40), i + 80)}…`
}

function checkCase(cs, syntax, res, envs, rep, variantName, opts) {
  opts = opts || {}
  const slotValues = opts.slotValues || SLOT_INSTANCES
  const fpName = opts.fingerprint ? opts.fingerprint(cs) : cs.name
  const src = res.__src
  rep.transitions += 1
  if (res.panic) {
    // a well-formed template of the corpus must compile: the property cannot hold where the compiler unwinds
    rep.violation(`${PID.id}|compiler-panic|${(opts && opts.fingerprint ? opts.fingerprint(cs) : cs.name)}`, `the compiler panics on the well-formed template ${JSON.stringify(src)} (${cs.name}): ${JSON.stringify(res.panic)}`, { engine: PID.id.toLowerCase(), case: cs.name, syntax, kind: 'panic' })
    return
  }
  const diags = []
  for (const p of Object.keys(res.diags)) for (const d of res.diags[p]) if (d.level >= 2) diags.push(`${p}: ${d.kind}`)
  if (diags.length) {
    // a well-formed template must be clean (C15's business) — nothing can be said about its rendering when the parser recovered
    rep.violation(`${PID.id}|diagnostic-on-well-formed:${diags[0].split(': ')[1]}|${cs.name.replace(/\(.*/, '')}`, `the well-formed template ${JSON.stringify(src)} (${cs.name}) produces ${diags.join('; ')}`, { engine: PID.id.toLowerCase(), case: cs.name, syntax, kind: 'diagnostic' })
    return
  }
  let Gs
  try { Gs = RT.loadGroups(res.outputs.groups.ok, false) } catch (e) {
    rep.violation(`${PID.id}|generated-code-does-not-load|${String(e).slice(0, 40)}`, `the bundle of ${JSON.stringify(src)} does not load: ${e}`, { engine: PID.id.toLowerCase(), case: cs.name, syntax, kind: 'load' })
    return
  }
  const files = modelFiles(cs)
  rep.states += 1
  let failed = 0
  for (const data of envs) {
    rep.evaluations += 1
    let exp, act, err
    try {
      exp = T.sortAttrs(T.render(files, Object.assign({}, cs.scripts), MAIN, data, { slotValues }))
    } catch (e) { rep.machineryErrors.push(`reference renderer failed on ${cs.name}: ${e && e.stack}`); return }
    try {
      act = T.sortAttrs(T.normActual(RT.flatten(RT.render(Gs, MAIN, data, { slotValues }).nodes, true)))
    } catch (e) { err = e }
    if (err || !T.sameTree(exp, act)) {
      failed += 1
      if (failed === 1) {
        const what = err ? `throws ${err}` : firstDiff(exp, act)
        rep.violation(`${PID.id}|${fpName}${variantName ? '|syntax:' + variantName : ''}`, `template ${JSON.stringify(src)} (${cs.name}) with data ${T.showValue(data)}: ${what}`, { engine: PID.id.toLowerCase(), case: cs.name, syntax, data: JSON.stringify(data, (k, v) => (v === undefined ? '__undefined__' : v)) })
      }
    }
  }
  rep.outcome([failed > 0, cs.name.replace(/\(.*/, ''), envs.length])
  if (envs.length > 1 || opts.alwaysNontrivial) rep.nontrivialCase(cs.name + '|' + (variantName || ''))
  return failed
}


module.exports = { MAIN, SLOT_INSTANCES, buildJob, modelFiles, firstDiff, checkCase, setProperty }
