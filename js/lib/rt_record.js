'use strict'
// Substrate B: a recording runtime for the protocol the generated code talks to, creation mode.
// It records every T/E/B/F/S/J definer call and every R.* setter call and has no semantics of
// its own beyond "a for-list iterates arrays, objects (key / value), strings (characters) and
// non-negative integers", copied from RangeListManager.updateKeys.

const vm = require('vm')

/** Evaluate the bundle emitted by get_tmpl_gen_object_groups -> G (path -> group function) */
function loadGroups(code, strict) {
  const src = (strict ? '"use strict";\n' : '') + 'return ' + code
  // eslint-disable-next-line no-new-func
  return new Function(src)()
}

function listEntries(dataList) {
  const out = []
  if (Array.isArray(dataList)) {
    for (let i = 0; i < dataList.length; i += 1) out.push([dataList[i], i])
  } else if (typeof dataList === 'object' && dataList !== null) {
    for (const k of Object.keys(dataList)) out.push([dataList[k], k])
  } else if (typeof dataList === 'string') {
    for (let i = 0; i < dataList.length; i += 1) out.push([dataList[i], i])
  } else if (typeof dataList === 'number') {
    const length = Number.isSafeInteger(dataList) && dataList >= 0 && dataList < 2 ** 32 ? dataList : 0
    for (let i = 0; i < length; i += 1) out.push([i, i])
  }
  return out
}

/**
 * opts.slotValues: (element node) => array of V objects, one per emulated slot instance of an element
 *   that declares dynamic slot value names (default: one instance, every name bound to `undefined`).
 */
function makeRuntime(opts) {
  opts = opts || {}
  const calls = { setFnFilter: 0, setEventListenerWrapper: 0 }
  const R = {
    c(N, v) { N.attrs.push(['class', null, v]) },
    y(N, v) { N.attrs.push(['style', null, v]) },
    i(N, v) { N.attrs.push(['id', null, v]) },
    s(N, v) { N.attrs.push(['slot', null, v]) },
    d(N, name, v) { N.attrs.push(['dataset', name, v]) },
    m(N, name, v) { N.attrs.push(['mark', name, v]) },
    v(N, name, handler, isCatch, isMut, isCapture, isDynamic, generalLvaluePath) {
      N.attrs.push(['event', name, handler, { catch: !!isCatch, mut: !!isMut, capture: !!isCapture, dynamic: !!isDynamic, nargs: arguments.length, path: generalLvaluePath }])
    },
    r(N, name, v, modelLvaluePath, generalLvaluePath) {
      N.attrs.push(['attr', name, v, { nargs: arguments.length, modelPath: modelLvaluePath, path: generalLvaluePath }])
    },
    a(N, name, v) { N.attrs.push(['extra-attr', name, v]) },
    wl(N, name, v) { N.attrs.push(['worklet', name, v]) },
    p(N, name, v, generalLvaluePath) { N.attrs.push(['change', name, v, { nargs: arguments.length, path: generalLvaluePath }]) },
    l(N, name, v) { N.values.push([name, v]) },
    setFnFilter() { calls.setFnFilter += 1 },
    setEventListenerWrapper() { calls.setEventListenerWrapper += 1 },
    devArgs() { return {} },
  }

  function runChildren(defineChildren, V, W) {
    const nodes = []
    const T = (text, textInit) => {
      const n = { t: 'text', text }
      if (typeof textInit === 'function') textInit(n)
      nodes.push(n)
    }
    const E = (tag, generics, propertyInit, children, slot, slotValueNames) => {
      const n = { t: 'el', tag, generics, attrs: [], children: [], slot, hasSlotArg: slot !== undefined, slotValueNames }
      nodes.push(n)
      propertyInit(n, true)
      if (slotValueNames !== undefined) {
        const instances = opts.slotValues ? opts.slotValues(n) : [Object.create(null)]
        n.slotInstances = []
        for (const v of instances) {
          const ch = runChildren(children, v, undefined)
          n.slotInstances.push({ V: v, children: ch })
          n.children.push(...ch)
        }
      } else {
        n.children = runChildren(children, undefined, undefined)
      }
    }
    const B = (key, branchFunc) => {
      nodes.push({ t: 'if', key, children: runChildren(branchFunc, V, W) })
    }
    const F = (list, key, listUpdatePathTree, lvaluePath, itemCallback) => {
      const n = { t: 'for', key, listPath: lvaluePath, items: [], children: [] }
      nodes.push(n)
      for (const [item, index] of listEntries(list)) {
        const itemPath = lvaluePath ? [...lvaluePath, index] : null
        const ch = runChildren((C, T2, E2, B2, F2, S2, J2) => {
          itemCallback(true, item, index, undefined, undefined, itemPath, T2, E2, B2, F2, S2, J2)
        }, V, W)
        n.items.push({ item, index, itemPath, children: ch })
        n.children.push({ t: 'for-item', children: ch })
      }
    }
    const S = (name, slotValueInit, slot) => {
      const n = { t: 'slot', name: name === null || name === undefined ? '' : String(name), rawName: name, values: [], attrs: [], slot }
      nodes.push(n)
      if (typeof slotValueInit === 'function') slotValueInit(n)
    }
    const J = (children, slot) => {
      nodes.push({ t: 'virtual', slot, children: runChildren(children, V, W) })
    }
    defineChildren(true, T, E, B, F, S, J, V, W)
    return nodes
  }

  return { R, runChildren, calls }
}

/** Render template `path` of the bundle with `data`; returns the recorded node list (with virtual wrappers). */
function render(G, path, data, opts) {
  const rt = makeRuntime(opts)
  const group = G[path]
  if (typeof group !== 'function') throw new Error('no such template in bundle: ' + path)
  const proc = group('')
  if (typeof proc !== 'function') throw new Error('no main template in: ' + path)
  const res = proc(rt.R, true, data, undefined)
  const nodes = rt.runChildren(res.C, undefined, undefined)
  return { nodes, bindingMap: res.B, calls: rt.calls }
}

/** Flatten virtual wrappers away: document-order list of text / element / slot nodes. */
function flatten(nodes, keepVirtualSlots) {
  const out = []
  for (const n of nodes) {
    if (n.t === 'text') out.push({ t: 'text', text: n.text })
    else if (n.t === 'el') out.push({ t: 'el', tag: n.tag, generics: n.generics, attrs: n.attrs, slot: n.slot, slotValueNames: n.slotValueNames, children: flatten(n.children, keepVirtualSlots) })
    else if (n.t === 'slot') out.push({ t: 'slot', name: n.name, values: n.values, attrs: n.attrs, slot: n.slot })
    else if (n.t === 'virtual' && n.slot !== undefined && keepVirtualSlots) out.push({ t: 'virtual', slot: n.slot, children: flatten(n.children, keepVirtualSlots) })
    else out.push(...flatten(n.children, keepVirtualSlots))
  }
  return out
}

module.exports = { loadGroups, makeRuntime, render, flatten, listEntries, vm }
