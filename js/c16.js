'use strict'
// C16 — recorded source positions point at the text they describe.
// For every template of the corpus printed in multi-line / CRLF / astral variants: every located
// AST node slices back to its spelling (line + UTF-16 column), children nest inside parents,
// children of a node appear in source order; the re-print source map is ordered and every named
// token points at source text that starts with its name.

const C = require('./lib/common')
const T = require('./lib/tmplmodel')
const G = require('./lib/tmplgen')
const SG = require('./lib/scopegen')
const M = require('./lib/exprmodel')

const VARIANTS = [
  {},
  { selfClose: false },
  { attrSep: '\n  ', exprPad: ' ' },
  { newlineBetweenNodes: true, exprPad: '\n' },
  { attrSep: '\r\n  ', exprPad: '\r\n' },
  { entity: 'hex', quote: "'" },
  { exprPad: ' /* c\n😀 */ ' },
]

/** multi-byte and astral characters inside static text / values, and an astral comment line in front */
function astralize(nodes) {
  const mapV = (v) => (typeof v === 'string' && v.length ? v + 'é😀' : Array.isArray(v) ? v.map((p) => (typeof p === 'string' ? '😀' + p : p)) : v)
  const rec = (n) => {
    const o = Object.assign({}, n)
    if (o.k === 'text') o.pieces = o.pieces.map((p) => (typeof p === 'string' && p.trim().length ? '😀' + p + 'é' : p))
    if (o.attrs) o.attrs = o.attrs.map((a) => (['plain', 'class', 'style', 'id', 'data-', 'data:', 'mark'].includes(a.f) ? Object.assign({}, a, { v: mapV(a.v) }) : a))
    if (o.children) o.children = o.children.map(rec)
    return o
  }
  // a comment that spans two lines with astral characters on its last line, directly followed by the content
  return [T.comment('😀é'), T.text('\n'), T.comment(' note\n😀😀 '), ...nodes.map(rec)]
}

function decodeEntities(s) {
  return s.replace(/&#x([0-9a-fA-F]+);|&#([0-9]+);|&(lt|gt|amp|quot|apos);/g, (m, h, d, n) => (h ? String.fromCodePoint(parseInt(h, 16)) : d ? String.fromCodePoint(parseInt(d, 10)) : { lt: '<', gt: '>', amp: '&', quot: '"', apos: "'" }[n]))
}
const camel = T.dashToCamel
const OPERATORS = new Set(['!', '~', '+', '-', 'typeof', 'void', '*', '/', '%', '<<', '>>', '>>>', '<', '>', '<=', '>=', 'instanceof', '==', '!=', '===', '!==', '&', '^', '|', '&&', '||', '??', '?', ':', '.', '...'])

function makeSlicer(src) {
  const lines = src.split('\n')
  const valid = (p) => p[0] < lines.length && p[1] <= lines[p[0]].length
  const slice = (s, e) => {
    if (!valid(s) || !valid(e)) return null
    if (s[0] === e[0]) return lines[s[0]].slice(s[1], e[1])
    let out = lines[s[0]].slice(s[1])
    for (let l = s[0] + 1; l < e[0]; l++) out += '\n' + lines[l]
    return out + '\n' + lines[e[0]].slice(0, e[1])
  }
  const at = (p) => (valid(p) ? lines.slice(p[0]).join('\n').slice(p[1]) : null)
  return { slice, at, valid }
}
const le = (a, b) => a[0] < b[0] || (a[0] === b[0] && a[1] <= b[1])

function literalValue(slice) {
  // eslint-disable-next-line no-new-func
  try { return new Function('return (' + slice + ')')() } catch (e) { return undefined }
}

/** returns null when the item is fine, otherwise a short problem class */
function judgeItem(it, sl) {
  const k = it.k
  const n = it.n
  if (sl === null) return 'location-outside-the-source'
  if (!le(it.s, it.e)) return 'start-after-end'
  const plainNames = ['tag-name', 'attr-name:plain', 'attr-name:event', 'attr-name:mark', 'attr-name:generic', 'attr-name:extra-attr', 'data-field', 'member-name', 'object-key', 'lit-bool', 'lit-null', 'lit-undefined', 'brace-open', 'brace-close', 'brace', 'bracket', 'paren', 'tag-open', 'tag-open-end', 'self-close', 'tag-close', 'end-tag-open', 'end-tag-end', 'script-content']
  if (k === 'brace' && sl === '') return null // the braces of a template data object are implied
  if (plainNames.includes(k)) return sl === n ? null : 'slice-is-not-the-spelling'
  if (['attr-name:model', 'attr-name:change', 'attr-name:worklet', 'attr-name:slot-value', 'attr-name:slot-element-value'].includes(k)) return camel(sl) === n ? null : 'slice-is-not-the-spelling'
  if (k === 'attr-name:data' && (sl === '' || (n === 'data' && sl === 'data'))) return null // the `data` attribute of a template reference (written, or defaulted)
  if (k === 'attr-name:data') return (sl.startsWith('data-') ? camel(sl.slice(5).toLowerCase()) === n : sl === n) ? null : 'slice-is-not-the-spelling'
  if (k.startsWith('attr-name:')) {
    if (sl === '') return null // an attribute that is not written: the AST carries a default with an empty location
    // fixed attribute names (wx:for, id, class, src, …); a defaulted wx:for-item / wx:for-index / wx:key points at wx:for
    if (sl === n) return null
    if (['wx:for-item', 'wx:for-index', 'wx:key'].includes(n) && sl === 'wx:for') return null
    if (n === 'data' && sl === 'is') return null // a template reference without data: the data location defaults to `is`
    return 'slice-is-not-the-spelling'
  }
  if (k === 'scope-name') return sl === n || camel(sl) === n || ((n === 'item' || n === 'index') && sl === 'wx:for') ? null : 'slice-is-not-the-spelling'
  if (k === 'static-value' || k === 'static-text' || k === 'static-piece' || k === 'static-template-data') {
    if (n === '' && sl === '') return null
    if (k === 'static-value' && n === '' && (sl === 'wx:for' || it.defaulted)) return null
    // (a src value is stored without its optional suffix)
    return decodeEntities(sl) === n || decodeEntities(sl) === n + '.wxml' || decodeEntities(sl) === n + '.wxs' ? null : 'slice-is-not-the-spelling'
  }
  if (k === 'scope-ref') return /^[A-Za-z_$][\w$]*$/.test(sl) ? null : 'slice-is-not-an-identifier'
  if (k === 'lit-str') return literalValue(sl) === n ? null : 'slice-is-not-the-spelling'
  if (k === 'lit-int' || k === 'lit-float') { const v = literalValue(sl); return typeof v === 'number' && (Object.is(v, Number(n)) || (n === 'inf' && v === Infinity)) ? null : 'slice-is-not-the-spelling' }
  if (k === 'operator') return (n === null ? OPERATORS.has(sl) : sl === n) ? null : 'slice-is-not-the-operator'
  if (k === 'comment') return sl === '<!--' + n + '-->' ? null : 'slice-is-not-the-spelling'
  if (k === 'element' || k === 'template-definition' || k === 'import' || k === 'include-global' || k === 'script') return sl.startsWith('<') && sl.endsWith('>') ? null : 'element-span-is-not-a-tag'
  return null
}

const EXPRESSION_PARENTS = new Set(['binary', 'unary', 'cond', 'static-member', 'dynamic-member', 'call', 'lit-arr', 'lit-obj'])

function checkOne(src, ast, rep, label) {
  const S = makeSlicer(src)
  const items = ast.items
  rep.states += 1
  let nonAscii = /[^\x00-\x7f]/.test(src) || src.includes('\n')
  const lastChildStart = new Map()
  items.forEach((it, i) => {
    rep.evaluations += 1
    const sl = S.slice(it.s, it.e)
    const p = judgeItem(it, sl)
    if (p) rep.violation(`C16|${p}|${it.k}`, `${it.k} ${JSON.stringify(it.n)} is located at ${JSON.stringify(it.s)}-${JSON.stringify(it.e)}, where the source reads ${JSON.stringify(sl)} — ${JSON.stringify(src)} (${label})`, { engine: 'c16', src, kind: 'slice' })
    if (it.p >= 0) {
      const par = items[it.p]
      // nesting
      if (!(le(par.s, it.s) && le(it.e, par.e))) {
        rep.violation(par.mixed ? 'C16|child-outside-parent|mixed-value' : `C16|child-outside-parent|${par.k}>${it.k}`, `${it.k} ${JSON.stringify(it.n)} at ${JSON.stringify(it.s)}-${JSON.stringify(it.e)} lies outside its parent ${par.k} at ${JSON.stringify(par.s)}-${JSON.stringify(par.e)} — ${JSON.stringify(src)} (${label})`, { engine: 'c16', src, kind: 'nesting' })
      }
      // source order among the children of expressions, values and of node lists
      const ordered = EXPRESSION_PARENTS.has(par.k) || par.k.startsWith('dynamic-') || ((par.k === 'element' || par.k === 'template-definition') && (it.k === 'element' || it.k.endsWith('-text') || it.k === 'comment'))
      if (ordered) {
        const prev = lastChildStart.get(it.p)
        if (prev && !le(prev, it.s)) rep.violation(`C16|siblings-out-of-order|${par.k}>${it.k}`, `${it.k} at ${JSON.stringify(it.s)} comes after a sibling that starts at ${JSON.stringify(prev)} — ${JSON.stringify(src)} (${label})`, { engine: 'c16', src, kind: 'order' })
        lastChildStart.set(it.p, it.s)
      }
    }
  })
  // the source map of re-printing
  let prev = [0, 0]
  ast.map.forEach((t) => {
    rep.evaluations += 1
    const d = [t.dl, t.dc]
    if (!le(prev, d)) rep.violation('C16|source-map-output-positions-decrease', `token at output ${JSON.stringify(d)} after ${JSON.stringify(prev)} — ${JSON.stringify(src)} printed as ${JSON.stringify(ast.printed)}`, { engine: 'c16', src, kind: 'map' })
    prev = d
    const text = S.at([t.sl, t.sc])
    if (text === null) { rep.violation('C16|source-map-source-position-outside', `token ${JSON.stringify(t)} — ${JSON.stringify(src)}`, { engine: 'c16', src, kind: 'map' }); return }
    if (t.name !== null && t.name !== undefined) {
      if (!text.startsWith(t.name)) {
        // normalised names (data-a-b -> aB, model:v-w -> vW): the name is not the source spelling
        const word = (text.match(/^[A-Za-z0-9_.\-:]+/) || [''])[0]
        const normalised = camel(word) === t.name || camel(word.replace(/^data-/, '').toLowerCase()) === t.name
        // default scope names of wx:for point at the attribute
        const defaulted = (t.name === 'item' || t.name === 'index') && text.startsWith('wx:for')
        const entity = decodeEntities(text).startsWith(t.name)
        if (!defaulted && !entity) rep.violation(normalised ? 'C16|source-map-name-is-normalised-not-the-source-spelling' : 'C16|source-map-name-does-not-match-the-source', `token named ${JSON.stringify(t.name)} points at ${JSON.stringify([t.sl, t.sc])} where the source reads ${JSON.stringify(text.slice(0, 24))} — ${JSON.stringify(src)}`, { engine: 'c16', src, kind: 'map' })
      }
    }
    // the output text at the token's destination exists
    const printedLines = ast.printed.split('\n')
    if (!(t.dl < printedLines.length && t.dc <= printedLines[t.dl].length)) rep.violation('C16|source-map-output-position-outside', `token ${JSON.stringify(t)} lies outside the printed text ${JSON.stringify(ast.printed)}`, { engine: 'c16', src, kind: 'map' })
  })
  if (nonAscii) rep.nontrivialCase(src)
  rep.outcome([items.length % 17, ast.map.length % 13, src.split('\n').length])
}

function casesOf(thorough) {
  const out = []
  const base = [...G.corpus(thorough), ...SG.corpus(1)]
  for (const cs of base) {
    out.push(cs)
    out.push(Object.assign({}, cs, { name: cs.name + '|astral', main: astralize(cs.main) }))
  }
  // every expression shape in attribute position (member / call / literal locations)
  const W = T.wxs('m', 'exports.f = function(a){ return a }')
  for (const e of M.shapes(thorough ? 2 : 2)) {
    const s = M.printMin(e)
    if (s.includes('"') && s.includes("'")) continue
    out.push({ name: 'expr:' + s, main: [W, T.el('v', [T.A.plain('p', T.E(e))], [T.text('😀', T.E(e))])], files: {}, scripts: {} })
  }
  return out
}

function runShard(info, thorough) {
  const rep = new C.Report()
  const all = casesOf(thorough)
  const work = []
  all.forEach((cs, ci) => VARIANTS.forEach((sx, vi) => { if (!cs.name.startsWith('expr:') || vi === 0 || vi === 3 || vi === 4 || vi === 6) work.push({ cs, sx, vi }) }))
  // the one-line printing behind a byte order mark (3 bytes, 1 UTF-16 unit, skipped by the parser but counted in positions): every
  // position of the first line then lies where byte offsets, UTF-16 offsets and "offsets without the mark" all differ
  all.forEach((cs) => { if (!cs.name.endsWith('|astral')) work.push({ cs, sx: VARIANTS[0], vi: 0, bom: true }) })
  const mine = work.filter((_, i) => i % info.of === info.shard)
  const CH = 400
  for (let s = 0; s < mine.length; s += CH) {
    const part = mine.slice(s, s + CH)
    const jobs = part.map((w, i) => ({ id: i, files: [['d/m', (w.bom ? '\uFEFF' : '') + T.print(w.cs.main, w.sx).text]], want: ['ast'] }))
    const res = C.compileBatch(jobs, 1)
    part.forEach((w, i) => {
      rep.transitions += 1
      const src = jobs[i].files[0][1]
      const ast = res[i].ast && res[i].ast['d/m']
      if (!ast || ast.panic) { rep.violation('C16|compiler-panic', `the compiler panics on ${JSON.stringify(src)}`, { engine: 'c16', src, kind: 'panic' }); return }
      const errs = (res[i].diags['d/m'] || []).filter((d) => d.level >= 3)
      if (errs.length) { rep.count('skipped:parsed-with-errors'); return }
      checkOne(src, ast, rep, w.cs.name)
      if ((s + i) % 5003 === 0) rep.sample({ source: src, located_nodes: ast.items.length, map_tokens: ast.map.length })
    })
  }
  return rep
}

function replayOne(rec) {
  const r = C.compileBatch([{ id: 0, files: [['d/m', rec.src]], want: ['ast'] }], 1)[0]
  const rep = new C.Report()
  if (!r.ast || r.ast['d/m'].panic) return { deterministic: true, failure: 'compiler panics' }
  checkOne(rec.src, r.ast['d/m'], rep, 'replay')
  const v = [...rep.violations.values()].map((x) => x.what)
  return { deterministic: true, failure: v.length ? v : null }
}

async function main() {
  const replay = C.argAfter('--replay', null)
  if (replay) { console.log(JSON.stringify(replayOne(JSON.parse(require('fs').readFileSync(replay, 'utf8'))))); return }
  const thorough = C.argAfter('--tier', 'quick') === 'thorough'
  const info = C.shardInfo()
  if (info) {
    const rep = runShard(info, thorough)
    require('fs').writeFileSync(info.partial, JSON.stringify(rep.toPartial()))
    return
  }
  const rep = await C.runSharded(__filename, ['--tier', thorough ? 'thorough' : 'quick'])
  const res = rep.toResult('C16',
    'every template of the model corpus and of the scope skeletons, plain and with multi-byte / astral characters in static text and values behind an astral comment line, plus every expression shape of depth <= 2 in attribute and text position; each printed in 6 concrete-syntax variants and once on one line behind a byte order mark (one line, paired tags, attributes on separate lines, bindings on separate lines, CRLF line ends, hex entities with single quotes). For every located AST node (tag punctuation and names, attribute names of every family, scope names, static values and pieces, identifiers, member names, literals, operators, brackets, comments, script bodies): the source slice at its location is its spelling (normalised names compared after the documented normalisation); children lie inside their parent; children of expressions, values and node lists are in source order. For the re-print source map: output positions never decrease, source positions exist, the source text at a named token starts with the name. non-trivial = multi-line or non-ASCII source',
    { cases: casesOf(thorough).length, variants: VARIANTS.length },
    true,
    ['JavaScript string indices are UTF-16 code units, the unit of the recorded columns', 'the AST is read through the public parse API by the harness (ast.rs)', 'templates that parse with an Error-level diagnostic are outside the property and counted'],
    {})
  C.writeResult(C.argAfter('--out', C.WORK + '/C16.result.json'), res)
}
main().catch((e) => { console.error(e); process.exit(3) })
