'use strict'
// C05 — names resolve lexically to the innermost enclosing scope.
// Scope skeletons (nestings of wx:for / slot: / <wxs> introducers with colliding names, plus the
// non-leak placements) x one identifier at every child position of every expression form; data
// fields are named like the scope variables and hold distinct sentinels; the delivered value
// must be the one the reference resolver (nearest enclosing introducer, else data) selects.

const C = require('./lib/common')
const T = require('./lib/tmplmodel')
const M = require('./lib/exprmodel')
const G = require('./lib/tmplgen')
const TC = require('./lib/treecheck')
const { text, el, block, tdef, tis, wxs, A, E } = T
const id = M.id

TC.setProperty('C05')

const { NAMES, forms, introducers, corpus, DATA, SLOTS } = require('./lib/scopegen')

function runShard(info, thorough) {
  const rep = new C.Report()
  const all = corpus(thorough ? 3 : 2)
  const mine = all.filter((_, i) => i % info.of === info.shard)
  const CH = 500
  for (let s = 0; s < mine.length; s += CH) {
    const part = mine.slice(s, s + CH)
    const jobs = part.map((cs, i) => TC.buildJob(cs, {}, i))
    const res = C.compileBatch(jobs, 1)
    part.forEach((cs, i) => {
      res[i].__src = jobs[i].files[0][1]
      TC.checkCase(cs, {}, res[i], [DATA], rep, '', { slotValues: SLOTS, alwaysNontrivial: true, fingerprint: (c) => { const [nest, form, nm] = c.name.split('|'); const inner = nest.split('>').pop(); return `${inner}|${form}|${nm}` } })
      if ((s + i) % 2003 === 0) rep.sample({ case: cs.name, template: res[i].__src })
    })
  }
  return rep
}

function replayOne(rec) {
  const all = corpus(3)
  const cs = all.find((c) => c.name === rec.case)
  if (!cs) return { deterministic: true, failure: null, note: 'case no longer in the corpus' }
  const run = () => {
    const rep = new C.Report()
    const job = TC.buildJob(cs, {}, 0)
    const res = C.compileBatch([job], 1)[0]
    res.__src = job.files[0][1]
    TC.checkCase(cs, {}, res, [DATA], rep, '', { slotValues: SLOTS })
    return [...rep.violations.values()].map((v) => v.what)
  }
  const a = run(); const b = run()
  return { deterministic: JSON.stringify(a) === JSON.stringify(b), failure: a.length ? a : null }
}

async function main() {
  const replay = C.argAfter('--replay', null)
  if (replay) { console.log(JSON.stringify(replayOne(JSON.parse(require('fs').readFileSync(replay, 'utf8'))))); return }
  const thorough = C.argAfter('--tier', 'quick') === 'thorough'
  const info = C.shardInfo()
  if (info) {
    const rep = runShard(info, thorough)
    require('fs').writeFileSync(info.partial, JSON.stringify(rep.toPartial()))
    return
  }
  const rep = await C.runSharded(__filename, ['--tier', thorough ? 'thorough' : 'quick'])
  const res = rep.toResult('C05',
    'every nesting (depth <= d) of 8 scope introducers (wx:for default / renamed / item named index / shadowing data / on a block, slot: value plain / aliased to item / two values) x 35 expression forms with the identifier under test at one child position (array elements after 0-2 holes and after spreads, call callee and arguments, object values and spreads, dynamic index, member object, each ?: position, operands of every operator class, nested containers) x 6 names (item, index, a, m, v, x), with and without a file-level script module m; plus mixed text, template data (value and shorthand), the for-list expression, own attributes of the introducing element, wx:if conditions; plus the non-leak placements (sibling after, following text, template definition bodies written outside and inside, a second sibling scope). Data fields carry the same names with distinct sentinels. non-trivial / distinct = every case',
    { nesting_depth: thorough ? 3 : 2, introducers: introducers().map((x) => x[0]), forms: forms().length, names: NAMES, cases: corpus(thorough ? 3 : 2).length },
    true,
    ['V8 runs the generated code on the recording runtime', 'the reference resolver is the scope overlay of the reference renderer: nearest enclosing introducer of the name, index after item, else the data field; template definition bodies see only script modules and their own data'],
    {})
  C.writeResult(C.argAfter('--out', C.WORK + '/C05.result.json'), res)
}
main().catch((e) => { console.error(e); process.exit(3) })
