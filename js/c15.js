'use strict'
// C15 — diagnostics: clean input is clean, broken input is flagged, locations are valid.
// (a) every well-formed template of the corpus in every concrete-syntax variant: no diagnostic >= Warn
// (b) every applicable single defect injection at every site: >= 1 diagnostic of the expected kind
//     whose level is at least the documented one (table below, copied from the documentation of
//     ParseErrorKind at the pinned commit, NOT read back from the implementation)
// (c) every diagnostic of every run (incl. mutants): start <= end, inside the source text

const C = require('./lib/common')
const T = require('./lib/tmplmodel')
const G = require('./lib/tmplgen')
const SG = require('./lib/scopegen')

const LEVEL = { Note: 1, Warn: 2, Error: 3, Fatal: 4 }
// documented minimum level per diagnostic kind (message text as printed by the compiler)
const DOCUMENTED = {
  'missing end tag': LEVEL.Warn,
  'incomplete tag': LEVEL.Fatal,
  'missing expression end': LEVEL.Fatal,
  'unexpected character inside expression': LEVEL.Fatal,
  'invalid attribute prefix': LEVEL.Warn,
  'duplicated attribute': LEVEL.Warn,
  'child nodes are not allowed for this element': LEVEL.Error,
  'missing source path': LEVEL.Error,
  'missing module name': LEVEL.Error,
  'unexpected character': LEVEL.Fatal,
  'invalid end tag': LEVEL.Warn,
  'invalid attribute': LEVEL.Warn,
}

/** defect injections on the printed text + its token list: each returns [{name, text, expect:[kinds]}] */
function injections(p) {
  const out = []
  const { text, tokens } = p
  const cut = (a, b) => text.slice(0, a) + text.slice(b)
  const ins = (at, s) => text.slice(0, at) + s + text.slice(at)
  tokens.forEach((t, i) => {
    if (t.kind === 'close-open') {
      // drop the end tag `</name>`
      const end = tokens[i + 2]
      out.push({ name: `drop-end-tag@${t.off}`, text: cut(t.off, end.offEnd), expect: ['missing end tag'] })
      // ... of an element whose name has an upper-case letter (the name gets a note of its own at the place the missing end tag is
      // reported at: one diagnostic must not stand in for the other)
      const nm = tokens[i + 1].text
      if (!['block', 'template', 'slot', 'include', 'import', 'wxs'].includes(nm) && /^[a-z]/.test(nm)) {
        const dropped = cut(t.off, end.offEnd)
        let at = -1
        for (let k = dropped.lastIndexOf('<' + nm, t.off); k >= 0; k = k === 0 ? -1 : dropped.lastIndexOf('<' + nm, k - 1)) {
          if (!/[A-Za-z0-9_:-]/.test(dropped[k + 1 + nm.length] || ' ')) { at = k; break }
        }
        if (at >= 0) out.push({ name: `drop-end-tag-of-upper-case-name@${t.off}`, text: dropped.slice(0, at + 1) + nm[0].toUpperCase() + dropped.slice(at + 2), expect: ['missing end tag'] })
      }
      // cut the text inside the end tag (an unterminated tag): after `</` and after `</name`
      out.push({ name: `cut-end-tag-after-name@${end.off}`, text: text.slice(0, end.off), expect: ['incomplete tag', 'missing end tag'] })
      out.push({ name: `cut-end-tag-after-slash@${t.offEnd}`, text: text.slice(0, t.offEnd), expect: ['incomplete tag', 'missing end tag', 'invalid end tag', 'unexpected character'] })
    }
    if (t.kind === 'comment') {
      // an unterminated comment: the text ends inside it / its end is missing and no later `-->` closes it
      out.push({ name: `cut-comment-after-open@${t.off}`, text: text.slice(0, t.off + 4), expect: ['incomplete tag'] })
      out.push({ name: `cut-comment-inside@${t.off}`, text: text.slice(0, Math.max(t.off + 4, t.offEnd - 3)), expect: ['incomplete tag'] })
      if (text.indexOf('-->', t.offEnd) === -1) out.push({ name: `drop-comment-end@${t.off}`, text: cut(t.offEnd - 3, t.offEnd), expect: ['incomplete tag'] })
    }
    if (t.kind === 'tag-name' && t.text !== 'wxs') {
      out.push({ name: `cut-start-tag-after-name@${t.offEnd}`, text: text.slice(0, t.offEnd), expect: ['incomplete tag'] })
      out.push({ name: `unknown-wx-directive@${t.offEnd}`, text: ins(t.offEnd, ' wx:bogus="1"'), expect: ['invalid attribute prefix'] })
      out.push({ name: `unknown-prefix@${t.offEnd}`, text: ins(t.offEnd, ' bogus:x="1"'), expect: ['invalid attribute prefix'] })
    }
    if (t.kind === 'attr-end') {
      const nameTok = t.name
      out.push({ name: `cut-start-tag-after-attribute@${t.off}`, text: text.slice(0, t.off), expect: ['incomplete tag'] })
      const attrText = text.slice(nameTok.off, t.off)
      // duplicate the attribute (every family, and the control attributes)
      // (several listeners for one event are legal: the unit test event_listener pins `bind:a bind:a` as clean)
      if (!/^slot:/.test(nameTok.text) && !/^(bind|catch|mut-bind|capture-bind|capture-catch|capture-mut-bind):/.test(nameTok.text)) out.push({ name: `duplicate-attribute:${nameTok.text.replace(/[:-].*/, (m) => m[0] + '*')}@${t.off}`, text: ins(t.off, ' ' + attrText), expect: ['duplicated attribute', 'invalid attribute'], attr: nameTok.text })
      // the same property through another family: a plain attribute and a model: binding of one name are duplicates
      if (/^[a-z][a-z0-9]*$/i.test(nameTok.text) && !['src', 'module', 'is', 'name', 'slot', 'id', 'class', 'style', 'hidden'].includes(nameTok.text) && !/^(wx|data)-|^wx:/.test(nameTok.text)) {
        out.push({ name: `duplicate-attribute:plain-then-model@${t.off}`, text: ins(t.off, ` model:${nameTok.text}="{{zz}}"`), expect: ['duplicated attribute', 'invalid attribute'], attr: nameTok.text })
      }
      // (names with hyphens are normalised differently in the two families: whether those count as one name is not asserted)
      if (/^model:[a-z][a-z0-9]*$/i.test(nameTok.text)) {
        out.push({ name: `duplicate-attribute:model-then-plain@${t.off}`, text: ins(t.off, ` ${nameTok.text.slice(6)}="1"`), expect: ['duplicated attribute', 'invalid attribute'], attr: nameTok.text })
      }
      const owner = tokens.slice(0, i).reverse().find((x) => x.kind === 'tag-name')
      const ownerTag = owner ? owner.text : ''
      // (`<wxs module="m"/>` without src is a well-formed empty inline script: not a defect)
      if ((nameTok.text === 'src' && ownerTag !== 'wxs') || nameTok.text === 'module' || nameTok.text === 'is') {
        out.push({ name: `remove-${nameTok.text}@${nameTok.off}`, text: cut(nameTok.off - 1, t.off), expect: ['missing source path', 'missing module name'] })
      }
    }
    if (t.kind === 'brace-close') {
      out.push({ name: `drop-expression-end@${t.off}`, text: cut(t.off, t.offEnd), expect: ['missing expression end', 'unexpected character inside expression', 'incomplete tag'] })
      out.push({ name: `garbage-in-binding@${t.off}`, text: ins(t.off, ' @'), expect: ['unexpected character inside expression'] })
    }
    if (t.kind === 'self-close' && t.node && (['include', 'import', 'tis', 'slot'].includes(t.node.k) || (t.node.k === 'wxs' && t.node.src !== undefined))) {
      const tag = t.tag
      out.push({ name: `child-under-childless:${t.node.k}@${t.off}`, text: text.slice(0, t.off) + `><x/></${tag}>` + text.slice(t.offEnd), expect: ['child nodes are not allowed for this element'] })
      // children that the parser moves out of the node list (template definitions, script modules, imports) are children all the same
      // (not under <wxs src>, whose content is script text)
      if (t.node.k !== 'wxs') {
        out.push({ name: `template-definition-under-childless:${t.node.k}@${t.off}`, text: text.slice(0, t.off) + `><template name="zz9">x</template></${tag}>` + text.slice(t.offEnd), expect: ['child nodes are not allowed for this element'] })
        out.push({ name: `script-module-under-childless:${t.node.k}@${t.off}`, text: text.slice(0, t.off) + `><wxs module="zz9">exports.a = 1</wxs></${tag}>` + text.slice(t.offEnd), expect: ['child nodes are not allowed for this element'] })
        out.push({ name: `import-under-childless:${t.node.k}@${t.off}`, text: text.slice(0, t.off) + `><import src="zz9"/></${tag}>` + text.slice(t.offEnd), expect: ['child nodes are not allowed for this element'] })
      }
      // ... also when the moved child repeats a name that is already defined (it is dropped with a note, not recorded)
      if (t.node.k !== 'wxs') {
        out.push({ name: `duplicate-template-definition-under-childless:${t.node.k}@${t.off}`, text: '<template name="zz9">y</template>' + text.slice(0, t.off) + `><template name="zz9">x</template></${tag}>` + text.slice(t.offEnd), expect: ['child nodes are not allowed for this element'] })
        out.push({ name: `duplicate-script-module-under-childless:${t.node.k}@${t.off}`, text: '<wxs module="zz9">exports.a = 2</wxs>' + text.slice(0, t.off) + `><wxs module="zz9">exports.a = 1</wxs></${tag}>` + text.slice(t.offEnd), expect: ['child nodes are not allowed for this element'] })
        out.push({ name: `second-import-under-childless:${t.node.k}@${t.off}`, text: '<import src="zz9"/>' + text.slice(0, t.off) + `><import src="zz9"/></${tag}>` + text.slice(t.offEnd), expect: ['child nodes are not allowed for this element'] })
      } else {
        // script text inside a <wxs src> whose module name repeats an earlier one
        const tagStart = text.lastIndexOf('<wxs', t.off)
        const mm = /module=(?:"([^"]*)"|'([^']*)')/.exec(text.slice(tagStart, t.off))
        if (mm) out.push({ name: `text-under-childless-with-duplicate-name:wxs@${t.off}`, text: `<wxs module="${mm[1] || mm[2]}">exports.a = 2</wxs>` + text.slice(0, t.off) + `>t</${tag}>` + text.slice(t.offEnd), expect: ['child nodes are not allowed for this element'] })
      }
      out.push({ name: `child-after-comment-under-childless:${t.node.k}@${t.off}`, text: text.slice(0, t.off) + `><!-- c --><x/></${tag}>` + text.slice(t.offEnd), expect: ['child nodes are not allowed for this element'] })
      out.push({ name: `child-after-blank-under-childless:${t.node.k}@${t.off}`, text: text.slice(0, t.off) + `>\n  <x/>\n</${tag}>` + text.slice(t.offEnd), expect: ['child nodes are not allowed for this element'] })
      // (not a defect: a comment, with or without blanks around it, is no child node)
      // (the content of <wxs> is script text, not markup: no comments there)
      if (t.node.k !== 'wxs') out.push({ name: `benign-comment-under-childless:${t.node.k}@${t.off}`, text: text.slice(0, t.off) + `>\n  <!-- c -->\n</${tag}>` + text.slice(t.offEnd), expect: [], benign: true })
      out.push({ name: `text-under-childless:${t.node.k}@${t.off}`, text: text.slice(0, t.off) + `>t</${tag}>` + text.slice(t.offEnd), expect: ['child nodes are not allowed for this element'] })
    }
  })
  return out
}

/** a `wx:else` / `wx:elif` behind a chain that is already closed by its `wx:else` has no chain to join: every chain shape x late
 *  branch x what stands between them x element kind (also with the closed chain inside the else branch of an outer chain) */
function closedChainDefects() {
  const out = []
  const chains = ['<a wx:if="{{x}}"/><b wx:else/>', '<a wx:if="{{x}}">p</a><b wx:elif="{{y}}">q</b><b wx:else>r</b>', '<block wx:if="{{x}}">p</block><block wx:else>r</block>',
    '<a wx:if="{{x}}"/><block wx:else><b wx:if="{{y}}"/><d wx:else/></block>']
  const lates = [['else', (tag) => `<${tag} wx:else>s</${tag}>`], ['else-self-closing', (tag) => `<${tag} wx:else/>`], ['elif', (tag) => `<${tag} wx:elif="{{z}}">s</${tag}>`]]
  const seps = [['', 'adjacent'], ['<!-- c -->', 'comment'], ['\n  ', 'blank'], ['\n<!-- c -->\n', 'blank-comment-blank']]
  for (const [ci, chain] of chains.entries()) for (const [ln, late] of lates) for (const [sep, sn] of seps) for (const tag of ['c', 'block']) {
    if (tag === 'block' && ln === 'else-self-closing') continue
    for (const wrap of [(t) => t, (t) => `<v>${t}</v>`, (t) => `<e wx:for="{{l}}">${t}</e>`]) {
      out.push({ name: `late-${ln}-after-closed-chain:${ci}:${sn}:${tag}@0`, text: wrap(chain + sep + late(tag)) + '<t/>', expect: ['invalid attribute'] })
    }
  }
  return out
}

function lineLengths(src) {
  // UTF-16 length of every line (lines are separated by \n)
  return src.split('\n').map((l) => l.length)
}

function checkLocations(src, diags, rep, label) {
  const lens = lineLengths(src)
  for (const d of diags) {
    rep.evaluations += 1
    const [sl, sc] = d.start; const [el, ec] = d.end
    let problem = null
    if (sl > el || (sl === el && sc > ec)) problem = 'start-after-end'
    else if (sl >= lens.length || el >= lens.length) problem = 'line-beyond-the-source'
    else if (sc > lens[sl] || ec > lens[el]) problem = 'column-beyond-the-line'
    if (problem) rep.violation(`C15|location:${problem}|${d.kind}`, `diagnostic "${d.kind}" at ${JSON.stringify(d.start)}-${JSON.stringify(d.end)} of ${JSON.stringify(src)} (${label}): ${problem}; the source has ${lens.length} line(s), line lengths ${JSON.stringify(lens.slice(0, 6))}`, { engine: 'c15', src, kind: 'location' })
  }
}

function family(name) {
  return name.replace(/@\d+$/, '')
}

function casesOf(thorough) {
  return [...G.corpus(thorough), ...SG.corpus(1)]
}

function runShard(info, thorough) {
  const rep = new C.Report()
  const corpus = casesOf(thorough).filter((c) => true)
  const work = []
  corpus.forEach((cs, ci) => {
    T.SYNTAX_VARIANTS.forEach((sx, vi) => work.push({ cs, sx, vi, ci }))
  })
  const mine = work.filter((_, i) => i % info.of === info.shard)
  const CH = 150
  for (let s = 0; s < mine.length; s += CH) {
    const part = mine.slice(s, s + CH)
    // (a) clean inputs
    const printed = part.map((w) => ({ main: T.print(w.cs.main, w.sx), others: Object.keys(w.cs.files).map((p) => [p, T.print(w.cs.files[p], w.sx)]) }))
    const jobs = part.map((w, i) => ({ id: i, files: [['d/m', printed[i].main.text], ...printed[i].others.map(([p, pr]) => [p, pr.text])], scripts: Object.keys(w.cs.scripts).map((p) => [p, w.cs.scripts[p]]), want: ['diags'] }))
    const res = C.compileBatch(jobs, 1)
    // (b) injections: on the default and the paired-tag variants of the main file
    const injJobs = []
    part.forEach((w, i) => {
      rep.transitions += 1
      rep.states += 1
      if (res[i].panic) { rep.violation('C15|compiler-panic-on-well-formed|' + w.cs.name.replace(/\(.*/, ''), `the compiler panics on ${JSON.stringify(printed[i].main.text)}`, { engine: 'c15', src: printed[i].main.text, kind: 'panic' }); return }
      for (const p of Object.keys(res[i].diags)) {
        const src = jobs[i].files.find((f) => f[0] === p)[1]
        const ds = res[i].diags[p]
        rep.evaluations += 1
        const bad = ds.filter((d) => d.level >= LEVEL.Warn)
        if (bad.length) rep.violation(`C15|well-formed-input-flagged:${bad[0].kind}|${w.cs.name.replace(/\(.*/, '').replace(/\|.*/, '')}`, `the well-formed template ${JSON.stringify(src)} (${w.cs.name}, syntax ${JSON.stringify(w.sx)}) produces ${JSON.stringify(bad.map((d) => d.kind + ' (level ' + d.level + ')'))}`, { engine: 'c15', src, kind: 'clean' })
        checkLocations(src, ds, rep, w.cs.name)
      }
      rep.outcome(['clean', w.vi, Object.keys(res[i].diags).length])
      if (w.vi === 0 || w.vi === 2 || w.vi === 9 || (thorough && (w.vi === 6 || w.vi === 7))) {
        for (const inj of injections(printed[i].main)) injJobs.push({ w, inj, base: printed[i].main.text })
      }
    })
    if (s === 0 && info.shard === 0) for (const inj of closedChainDefects()) injJobs.push({ w: null, inj, base: '(a condition chain that already has its wx:else branch)' })
    for (let k = 0; k < injJobs.length; k += 2000) {
      const chunk = injJobs.slice(k, k + 2000)
      const r2 = C.compileBatch(chunk.map((j, i) => ({ id: i, files: [['d/m', j.inj.text]], want: ['diags'] })), 1)
      chunk.forEach((j, i) => {
        rep.transitions += 1
        rep.states += 1
        rep.evaluations += 1
        const fam = family(j.inj.name)
        rep.nontrivialCase(j.inj.text)
        if (r2[i].panic) { rep.violation(`C15|compiler-panic|${fam}`, `the compiler panics on ${JSON.stringify(j.inj.text)}`, { engine: 'c15', src: j.inj.text, kind: 'panic' }); return }
        const ds = r2[i].diags['d/m'] || []
        checkLocations(j.inj.text, ds, rep, j.inj.name)
        if (j.inj.benign) {
          const bad = ds.filter((d) => d.level >= LEVEL.Warn)
          rep.outcome([fam, 'benign', bad.length])
          if (bad.length) rep.violation(`C15|well-formed-input-flagged:${bad[0].kind}|${fam}`, `the well-formed variation "${j.inj.name}" of ${JSON.stringify(j.base)} gives ${JSON.stringify(j.inj.text)} and produces ${JSON.stringify(bad.map((d) => d.kind + ' (level ' + d.level + ')'))}`, { engine: 'c15', src: j.inj.text, kind: 'clean' })
          return
        }
        const hit = ds.filter((d) => j.inj.expect.includes(d.kind))
        rep.outcome([fam, hit.length > 0, ds.length])
        if (!hit.length) {
          rep.violation(`C15|defect-not-flagged|${fam}`, `defect "${j.inj.name}" injected into ${JSON.stringify(j.base)} gives ${JSON.stringify(j.inj.text)}; expected one of ${JSON.stringify(j.inj.expect)}, got ${JSON.stringify(ds.map((d) => d.kind))}`, { engine: 'c15', src: j.inj.text, expect: j.inj.expect, kind: 'injection' })
          return
        }
        const strong = hit.filter((d) => d.level >= DOCUMENTED[d.kind])
        if (!strong.length) rep.violation(`C15|level-below-documented|${hit[0].kind}`, `"${hit[0].kind}" is reported at level ${hit[0].level}, documented ${DOCUMENTED[hit[0].kind]} — ${JSON.stringify(j.inj.text)}`, { engine: 'c15', src: j.inj.text, expect: j.inj.expect, kind: 'injection' })
      })
      if (k === 0 && s % 3000 === 0 && chunk.length) rep.sample({ base: chunk[0].base, injected: chunk[0].inj.text, defect: chunk[0].inj.name, expected: chunk[0].inj.expect })
    }
  }
  // (c) locations on ill-formed inputs: single-character mutants of short templates
  if (true) {
    const seeds = casesOf(false).filter((c, i) => i % info.of === info.shard && Object.keys(c.files).length === 0).slice(0, thorough ? 200 : 40).map((c, i) => T.print(c.main, { attrSep: i % 2 ? '\n  ' : '\r\n  ', newlineBetweenNodes: true }).text).filter((t) => t.length < 120)
    const muts = []
    const SIGMA = ['<', '>', '"', "'", '{', '}', '/', '=', '&', '\n', '\r\n', '\r', 'é', '😀', '{{', '}}', '</', '<!--']
    // the same templates on ONE line behind a byte order mark (3 bytes, 1 UTF-16 unit, skipped by the parser but counted in positions):
    // every diagnostic then lies on the line whose byte and UTF-16 offsets differ from the start
    const bomSeeds = casesOf(false).filter((c, i) => i % info.of === info.shard && Object.keys(c.files).length === 0).slice(0, thorough ? 100 : 20).map((c) => '\uFEFF' + T.print(c.main).text).filter((t) => t.length < 100)
    for (const t of [...seeds, ...bomSeeds]) {
      const chars = Array.from(t)
      for (let i = 0; i <= chars.length; i++) {
        muts.push(chars.slice(0, i).join(''))
        if (i < chars.length) muts.push(chars.slice(0, i).concat(chars.slice(i + 1)).join(''))
        for (const sgm of SIGMA) muts.push(chars.slice(0, i).join('') + sgm + chars.slice(i).join(''))
      }
    }
    for (let k = 0; k < muts.length; k += 3000) {
      const chunk = muts.slice(k, k + 3000)
      const r3 = C.compileBatch(chunk.map((t, i) => ({ id: i, files: [['d/m', t]], want: ['diags'] })), 1)
      chunk.forEach((t, i) => {
        rep.transitions += 1
        rep.states += 1
        if (r3[i].panic) { rep.count('mutant-makes-the-compiler-panic (C01)'); return }
        checkLocations(t, r3[i].diags['d/m'] || [], rep, 'mutant')
      })
    }
  }
  return rep
}

function replayOne(rec) {
  const r = C.compileBatch([{ id: 0, files: [['d/m', rec.src]], want: ['diags'] }], 1)[0]
  const rep = new C.Report()
  if (r.panic) return { deterministic: true, failure: 'compiler panics' }
  const ds = r.diags['d/m'] || []
  checkLocations(rec.src, ds, rep, 'replay')
  const out = [...rep.violations.values()].map((v) => v.what)
  if (rec.kind === 'clean' && ds.some((d) => d.level >= LEVEL.Warn)) out.push('well-formed input flagged: ' + JSON.stringify(ds.map((d) => d.kind)))
  if (rec.kind === 'injection') {
    const hit = ds.filter((d) => rec.expect.includes(d.kind))
    if (!hit.length) out.push('defect not flagged: got ' + JSON.stringify(ds.map((d) => d.kind)))
    else if (!hit.some((d) => d.level >= DOCUMENTED[d.kind])) out.push('level below the documented one')
  }
  return { deterministic: true, failure: out.length ? out : null }
}

async function main() {
  const replay = C.argAfter('--replay', null)
  if (replay) { console.log(JSON.stringify(replayOne(JSON.parse(require('fs').readFileSync(replay, 'utf8'))))); return }
  const thorough = C.argAfter('--tier', 'quick') === 'thorough'
  const info = C.shardInfo()
  if (info) {
    const rep = runShard(info, thorough)
    require('fs').writeFileSync(info.partial, JSON.stringify(rep.toPartial()))
    return
  }
  const rep = await C.runSharded(__filename, ['--tier', thorough ? 'thorough' : 'quick'])
  const res = rep.toResult('C15',
    '(a) every template of the model corpus and of the scope skeletons in each of the 9 concrete-syntax variants: no diagnostic at Warn or above; (b) on the default and the paired-tag printing (thorough: also two multi-line printings) every applicable single defect at every site: drop an end tag, cut the start tag at EOF after the tag name and after every attribute, cut every end tag at EOF after `</` and after its name, drop a }}, garbage inside a binding, wx:bogus and bogus:x after every tag name, duplicate every attribute (every family and the control attributes), an element or a text child under include / import / template-is / slot / wxs-with-src, remove src / module / is - at least one diagnostic of the expected kind at the documented level or above (table embedded in the checker); (c) every diagnostic of every run, including all single-character deviations (17 symbols incl. multi-byte and astral) of multi-line printings: start <= end, lines exist, columns within the UTF-16 length of their line. non-trivial = injected inputs',
    { corpus: casesOf(thorough).length, syntax_variants: T.SYNTAX_VARIANTS.length, documented_levels: DOCUMENTED },
    true,
    ['the documented level table is embedded in the checker and not read back from ParseErrorKind::level', 'the printers emit documented syntax only'],
    {})
  C.writeResult(C.argAfter('--out', C.WORK + '/C15.result.json'), res)
}
main().catch((e) => { console.error(e); process.exit(3) })
