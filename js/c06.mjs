// C06 — incremental update is sound (and C07: the binding-map fast path), on the REAL runtime.
//
// Explicit-state exploration of update histories: state = (template, data); transition = one data
// update through the public data API of a component instance (exact path changes, coarsened
// whole-field replacement, array splices, several fields at once). Invariant in every reached
// state: serialise(instance after the history) == serialise(fresh instance created with the data).
import { createRequire } from 'node:module'
import { fileURLToPath } from 'node:url'
import fs from 'node:fs'
import * as D from './rt_real/driver.mjs'

const require = createRequire(import.meta.url)
const C = require('./lib/common.js')
const T = require('./lib/tmplmodel.js')
const G = require('./lib/tmplgen.js')
const M = require('./lib/exprmodel.js')
const RT = require('./lib/rt_record.js')
const NODE22 = process.execPath
const HOOKS = fileURLToPath(new URL('./rt_real/hooks.mjs', import.meta.url))

const MODE = C.argAfter('--property', 'C06') // C06: virtualTree updates; C07: default mode (binding map first)
const MAIN = 'd/m'

const clone = (v) => (typeof v === 'function' || v === null || typeof v !== 'object' ? v : Array.isArray(v) ? v.map(clone) : Object.fromEntries(Object.keys(v).map((k) => [k, clone(v[k])])))
const key = (v) => JSON.stringify(v, (k, x) => (x === undefined ? '__u__' : typeof x === 'function' ? '__f__' + x.name : Number.isNaN(x) ? '__nan__' : x))

/** functions in recorded histories are written by name */
const encFns = (v) => (typeof v === 'function' ? { $fn: v.name } : v === null || typeof v !== 'object' ? v : Array.isArray(v) ? v.map(encFns) : Object.fromEntries(Object.keys(v).map((k) => [k, encFns(v[k])])))
const decFns = (v) => (v === null || typeof v !== 'object' ? v : Array.isArray(v) ? v.map(decFns) : typeof v.$fn === 'string' ? G.FNS[v.$fn] : Object.fromEntries(Object.keys(v).map((k) => [k, decFns(v[k])])))

const INITIAL = [
  { toString: 0, constructor: 'K', f: G.FNS.f1, x: 'X', y: 'Y', c: 1, d: 0, d2: 1, a: { b: 'B' }, xs: 'XS', aa: { b: 'B', bb: 'BB' }, n: 't', b: 'BB', list: [{ id: 1, v: 'p' }, { id: 2, v: 'q' }, { id: 3, v: 'r' }, { id: 4, v: 's' }, { id: 5, v: 'u' }], obj: { a: { id: 1, v: 'p' }, b: { id: 2, v: 'q' }, c: { id: 3, v: 'r' } } },
  { toString: 1, constructor: undefined, x: undefined, y: null, c: 0, d: 1, d2: 0, a: undefined, xs: undefined, aa: undefined, n: 'u', b: undefined, list: [], obj: {} },
]
const ALT = Object.assign(Object.create(null), {
  toString: [0, 1, undefined],
  constructor: ['K', undefined, 0],
  f: [G.FNS.f1, G.FNS.f2, undefined],
  x: ['X', 'X2', undefined, null, 0, '', 7],
  y: ['Y', 'Y2', undefined, 0],
  c: [1, 0, 'a', '', undefined],
  d: [0, 1],
  d2: [1, 0],
  n: ['t', 'u', 'b', undefined, ''],
  b: ['BB', 'B3', undefined],
  a: [{ b: 'B' }, { b: 'B2' }, undefined, null, { b: undefined }],
  xs: ['XS', 'XS2', undefined],
  aa: [{ b: 'B', bb: 'BB' }, { b: 'B', bb: 'B2' }, { b: 'B3', bb: 'BB' }, undefined],
  obj: [{ a: { id: 1, v: 'p' }, b: { id: 2, v: 'q' }, c: { id: 3, v: 'r' } }, {}, { b: { id: 2, v: 'q' }, a: { id: 1, v: 'p' } }, { a: { id: 1, v: 'p' }, z: { id: 9, v: 'new' }, b: { id: 2, v: 'q' } }, undefined, { a: { id: 2, v: 's' }, b: { id: 2, v: 't' } }, { z: { id: 1, v: 'p' }, b: { id: 2, v: 'q' }, c: { id: 3, v: 'r' } }, { a: { id: 1, v: 'p' }, b: { id: 2, v: 'q' }, y: { id: 3, v: 'r' } }],
  list: [[{ id: 1, v: 'p' }, { id: 2, v: 'q' }, { id: 3, v: 'r' }, { id: 4, v: 's' }, { id: 5, v: 'u' }], [{ id: 1, v: 'p' }, { id: 2, v: 'q' }, { id: 3, v: 'r' }], [], [{ id: 3, v: 'r' }, { id: 1, v: 'p' }], [1, 2], ['', 0], { k: 1, m: 2 }, 'ab', 2, undefined, null, [[1, 2], 'xy'], [{ id: 1, v: 'p' }, { id: 1, v: 'q' }, { id: 3, v: 'r' }], { p: { id: 1, v: 'p' }, q: { id: 2, v: 'q' }, r: { id: 3, v: 'r' }, s: { id: 4, v: 's' }, t: { id: 5, v: 'u' } }],
})

function setPath(data, path, value) {
  const d = clone(data)
  let cur = d
  for (let i = 0; i < path.length - 1; i++) {
    if (cur[path[i]] === null || typeof cur[path[i]] !== 'object') cur[path[i]] = typeof path[i + 1] === 'number' ? [] : {}
    cur = cur[path[i]]
  }
  cur[path[path.length - 1]] = clone(value)
  return d
}
function getPath(data, path) { let cur = data; for (const p of path) { if (cur === null || cur === undefined) return undefined; cur = cur[p] } return cur }

/** transitions enabled in `data` for a template using `names`; each: {label, ops:[{path,value}|{path,splice:[index,del,inserts]}]} */
function transitions(data, names, reduced, keyed) {
  const out = []
  const used = [...names].filter((n) => ALT[n])
  for (const n of used) {
    for (const v of ALT[n]) {
      if (key(v) === key(data[n])) continue
      out.push({ label: `set ${n}`, ops: [{ path: [n], value: v }] })
      if (reduced) break
    }
  }
  if (names.has('a') && data.a && typeof data.a === 'object') {
    out.push({ label: 'set a.b (exact path)', ops: [{ path: ['a', 'b'], value: data.a.b === 'B2' ? 'B4' : 'B2' }] })
  }
  if (names.has('aa') && data.aa && typeof data.aa === 'object') {
    out.push({ label: 'set aa.bb (exact path)', ops: [{ path: ['aa', 'bb'], value: data.aa.bb === 'E2' ? 'E4' : 'E2' }] })
    out.push({ label: 'set aa.b (exact path)', ops: [{ path: ['aa', 'b'], value: data.aa.b === 'E3' ? 'E5' : 'E3' }] })
  }
  if (!reduced && used.length >= 2) {
    // two fields in one update, every pair
    for (let i = 0; i < used.length; i++) for (let j = i + 1; j < used.length; j++) {
      const vi = ALT[used[i]].find((v) => key(v) !== key(data[used[i]]))
      const vj = ALT[used[j]].find((v) => key(v) !== key(data[used[j]]))
      out.push({ label: `set ${used[i]} and ${used[j]}`, ops: [{ path: [used[i]], value: vi }, { path: [used[j]], value: vj }] })
    }
    if (used.length >= 3) out.push({ label: 'set every field', ops: used.map((n) => ({ path: [n], value: ALT[n].find((v) => key(v) !== key(data[n])) })) })
  }
  // an object used as a list: exact paths below a field of the object, a key change, an item replacement
  const O = data.obj
  if (names.has('obj') && O && typeof O === 'object' && Object.keys(O).length) {
    const ks = Object.keys(O)
    const k1 = ks[ks.length - 1]
    out.push({ label: 'obj: change a field of the last item', ops: [{ path: ['obj', k1, 'v'], value: 'chg' }] })
    out.push({ label: 'obj: change the key field of the last item', ops: [{ path: ['obj', k1, 'id'], value: 8 }] })
    out.push({ label: 'obj: replace the first item', ops: [{ path: ['obj', ks[0]], value: { id: 7, v: 'rep' } }] })
    out.push({ label: 'obj: add a field', ops: [{ path: ['obj', 'zz'], value: { id: 6, v: 'add' } }] })
    out.push({ label: 'obj: add a field that sorts first', ops: [{ path: ['obj', '0'], value: { id: 5, v: 'first' } }] })
    if (ks.length >= 2) out.push({ label: 'obj: change two items', ops: [{ path: ['obj', ks[0], 'v'], value: 'c0' }, { path: ['obj', k1, 'v'], value: 'c1' }] })
  }
  const L = data.list
  if (names.has('list') && Array.isArray(L)) {
    const fresh = { id: 9, v: 'new' }
    out.push({ label: 'push', ops: [{ path: ['list'], splice: [L.length, 0, [fresh]] }] })
    out.push({ label: 'unshift', ops: [{ path: ['list'], splice: [0, 0, [fresh]] }] })
    if (L.length) {
      out.push({ label: 'pop', ops: [{ path: ['list'], splice: [L.length - 1, 1, []] }] })
      out.push({ label: 'shift', ops: [{ path: ['list'], splice: [0, 1, []] }] })
      out.push({ label: 'replace item 0', ops: [{ path: ['list', 0], value: { id: 7, v: 'rep' } }] })
      if (L[0] && typeof L[0] === 'object' && !Array.isArray(L[0])) {
        out.push({ label: 'change item 0 field', ops: [{ path: ['list', 0, 'v'], value: 'chg' }] })
        out.push({ label: 'change item 0 key', ops: [{ path: ['list', 0, 'id'], value: 8 }] })
      }
      out.push({ label: 'empty by splice', ops: [{ path: ['list'], splice: [0, L.length, []] }] })
    }
    if (L.length >= 2) {
      out.push({ label: 'swap 0 and 1 (whole list)', ops: [{ path: ['list'], value: [L[1], L[0], ...L.slice(2)] }] })
      out.push({ label: 'reverse (whole list)', ops: [{ path: ['list'], value: L.slice().reverse() }] })
      out.push({ label: 'splice in the middle', ops: [{ path: ['list'], splice: [1, 1, [fresh, { id: 10, v: 'n2' }]] }] })
      out.push({ label: 'duplicate key', ops: [{ path: ['list', 1], value: clone(L[0]) }] })
      out.push({ label: 'swap by two item writes', ops: [{ path: ['list', 0], value: clone(L[1]) }, { path: ['list', 1], value: clone(L[0]) }] })
      if (L.length >= 3) out.push({ label: 'two item writes (0 replaced, 2 takes the old item 0)', ops: [{ path: ['list', 0], value: { id: 7, v: 'rep' } }, { path: ['list', 2], value: clone(L[0]) }] })
    }
    // a list operation that shifts items together with an exact change inside a surviving item (indices after the operation)
    if (L.length >= 3 && L.every((x) => x && typeof x === 'object' && !Array.isArray(x))) {
      const fresh2 = { id: 11, v: 'n3' }
      for (const [ln, sp] of [['shift', [0, 1, []]], ['unshift', [0, 0, [fresh2]]], ['remove the middle', [1, 1, []]]]) {
        const after = L.slice(); after.splice(sp[0], sp[1], ...sp[2])
        for (const idx of [0, 1, after.length - 1]) {
          if (!after[idx] || idx >= after.length) continue
          out.push({ label: `${ln} + change field of item ${idx}`, ops: [{ path: ['list'], splice: sp }, { path: ['list', idx, 'v'], value: 'chg' + idx }] })
        }
      }
    }
    // every permutation of a five-item list by whole-list replacement (the keyed diff keeps a longest common subsequence in place)
    if (!reduced && keyed && L.length === 5) {
      const perm = (arr) => (arr.length <= 1 ? [arr] : arr.flatMap((x, i) => perm([...arr.slice(0, i), ...arr.slice(i + 1)]).map((r) => [x, ...r])))
      for (const p of perm([0, 1, 2, 3, 4])) {
        if (p.every((x, i) => x === i)) continue
        out.push({ label: `permute to ${p.join('')}`, ops: [{ path: ['list'], value: p.map((i) => L[i]) }] })
      }
    }
    // every list operation together with a change of each other field in the same update (the list diff and the bindings
    // inside the items that read data outside the item are served by one pass)
    if (!reduced) {
      const listOps = out.filter((t) => t.ops.some((op) => op.path[0] === 'list') && t.ops.length <= 2 && !t.label.startsWith('set ') && !t.label.startsWith('permute ') && !t.label.includes(' + change field of item '))
      for (const n of used) {
        if (n === 'list') continue
        const v = ALT[n].find((x) => key(x) !== key(data[n]))
        for (const t of listOps) {
          out.push({ label: `${t.label} + set ${n}`, ops: [...t.ops, { path: [n], value: v }] })
          out.push({ label: `set ${n} + ${t.label}`, ops: [{ path: [n], value: v }, ...t.ops] })
        }
      }
    }
  }
  return out
}

function applyToData(data, t) {
  let d = data
  for (const op of t.ops) {
    if (op.splice) {
      const arr = clone(getPath(d, op.path))
      arr.splice(op.splice[0], op.splice[1], ...clone(op.splice[2]))
      d = setPath(d, op.path, arr)
    } else d = setPath(d, op.path, op.value)
  }
  return d
}
function applyToInstance(comp, t) {
  comp.groupUpdates(() => {
    for (const op of t.ops) {
      if (op.splice) comp.spliceArrayDataOnPath(op.path, op.splice[0], op.splice[1], clone(op.splice[2]))
      else comp.replaceDataOnPath(op.path, clone(op.value))
    }
  })
}

function usable(cs) {
  // dynamic-slot content is decided on substrate B (see DESIGN 2.2); everything else runs here
  const s = JSON.stringify([cs.main, cs.files])
  // (slot: references on content of a component WITHOUT dynamic slots - no element c in the template - stay here)
  return !s.includes('"slotScopes"') || !s.includes('"tag":"c"')
}

/** names the model uses at positions the binding map cannot reach (C07, second half) */
function unreachableNames(nodes, inside, out = new Set()) {
  const add = (v) => { if (v !== undefined) for (const n of G.collectNames(v)) out.add(n) }
  for (const n of nodes || []) {
    const dyn = inside || !!(n.wxIf || n.wxElif || n.wxElse || n.wxFor)
    // structural positions
    add(n.wxIf); add(n.wxElif); if (n.wxFor) add(n.wxFor.list)
    if (n.k === 'tis') { add(n.is); add(n.data) }
    if (n.k === 'slot') { add(n.name); add(n.values) }
    if (n.k === 'block' && n.slot !== undefined) add(n.slot)
    // a name inside a <template name> body is a field of the TEMPLATE's data: it is a use of a host field only through the data
    // expression of an instantiation (counted above as a structural position), whatever the names are
    if (n.k === 'tdef') continue
    if (dyn) {
      if (n.k === 'text') add(n.pieces)
      if (n.attrs) add(n.attrs)
    }
    if (n.children) unreachableNames(n.children, dyn || n.k === 'tis' || n.k === 'include' || n.k === 'slot', out)
  }
  return out
}

function exploreCase(cs, bundle, rep, depth2) {
  if (MODE === 'C07') {
    const proc = bundle[MAIN]('')
    let advertised = []
    try { advertised = Object.keys(proc({}, true, {}, undefined).B || {}) } catch (e) { /* the differential half reports it */ }
    const banned = unreachableNames(cs.main, false)
    const bad = advertised.filter((f) => banned.has(f))
    rep.evaluations += 1
    if (bad.length) {
      rep.violation(`C07|advertised-but-used-where-the-map-cannot-reach|${cs.name}`, `template ${JSON.stringify(cs.__src)} (${cs.name}) advertises binding-map updaters for ${JSON.stringify(bad)}, which the model uses at a position the map cannot reach`, { engine: 'c07', case: cs.name, kind: 'advertised', fields: bad })
    }
  }
  const names = G.collectNames([cs.main, cs.files])
  const updateMode = MODE === 'C06' ? 'virtualTree' : undefined
  const freshCache = new Map()
  const fresh = (data) => {
    const k = key(data)
    if (!freshCache.has(k)) freshCache.set(k, D.serialize(D.create(bundle, MAIN, data, updateMode).shadowRoot))
    return freshCache.get(k)
  }
  const seen = new Set()
  let failed = false
  const report = (history, data, got, want, init) => {
    if (failed) return
    failed = true
    const labels = history.map((t) => t.label)
    rep.violation(`${MODE}|${cs.name.replace(/\|syntax.*/, '')}`, `template ${JSON.stringify(cs.__src)} (${cs.name}): after ${JSON.stringify(labels)} from initial state ${init} the tree is ${got} but a fresh creation with the same data ${key(data)} gives ${want}`,
      { engine: MODE.toLowerCase(), case: cs.name, initial: init, history: encFns(history.map((t) => t.ops)), labels })
  }
  INITIAL.forEach((init, ii) => {
    const t1s = transitions(init, names, false, /wx:key/.test(cs.__src || ''))
    for (const t1 of t1s) {
      const d1 = applyToData(init, t1)
      let comp
      try {
        comp = D.create(bundle, MAIN, init, updateMode)
        applyToInstance(comp, t1)
      } catch (e) { rep.violation(`${MODE}|update-throws|${cs.name}`, `template ${JSON.stringify(cs.__src)}: ${t1.label} from initial state ${ii} throws ${e}`, { engine: MODE.toLowerCase(), case: cs.name, initial: ii, history: encFns([t1.ops]), labels: [t1.label] }); failed = true; return }
      rep.transitions += 1
      rep.evaluations += 1
      const k1 = ii + '|' + key(d1)
      if (!seen.has(k1)) { seen.add(k1); rep.states += 1 }
      const got = D.serialize(comp.shadowRoot)
      const want = fresh(d1)
      const changed = want !== fresh(init)
      if (changed) rep.nontrivial += 1
      if (got !== want) { report([t1], d1, got, want, ii); continue }
      if (!depth2) continue
      // second step from the reached state (reduced transition set)
      for (const t2 of transitions(d1, names, true)) {
        const d2 = applyToData(d1, t2)
        let c2
        try {
          c2 = D.create(bundle, MAIN, init, updateMode)
          applyToInstance(c2, t1)
          applyToInstance(c2, t2)
        } catch (e) { rep.violation(`${MODE}|update-throws|${cs.name}`, `template ${JSON.stringify(cs.__src)}: ${t1.label}, ${t2.label} throws ${e}`, { engine: MODE.toLowerCase(), case: cs.name, initial: ii, history: encFns([t1.ops, t2.ops]), labels: [t1.label, t2.label] }); failed = true; return }
        rep.transitions += 1
        rep.evaluations += 1
        const k2 = ii + '|' + key(d2)
        if (!seen.has(k2)) { seen.add(k2); rep.states += 1 }
        const g2 = D.serialize(c2.shadowRoot)
        const w2 = fresh(d2)
        if (g2 !== w2) report([t1, t2], d2, g2, w2, ii)
      }
    }
  })
  // direct drive of ProcGenWrapper.update with every kind of update-path tree that covers the change: `true` (whole data),
  // coarsened (each touched top-level field marked as a whole), exact, and exact plus unrelated marks (over-approximation)
  if (MODE === 'C06' && !failed) {
    INITIAL.forEach((init, ii) => {
      for (const t1 of transitions(init, names, false)) {
        if (failed) return
        if (t1.label.includes(' + ') || t1.label.startsWith('permute ')) continue
        const d1 = applyToData(init, t1)
        const want = fresh(d1)
        const touched = [...new Set(t1.ops.map((op) => op.path[0]))]
        const trees = [['true', true], ['coarsened', Object.fromEntries(touched.map((f) => [f, true]))]]
        if (t1.ops.every((op) => !op.splice && op.path.every((seg) => typeof seg === 'string'))) {
          const exact = {}
          for (const op of t1.ops) { let cur = exact; op.path.forEach((seg, si) => { if (cur === true) return; if (si === op.path.length - 1) cur[seg] = true; else { if (cur[seg] === undefined) cur[seg] = {}; cur = cur[seg] } }) }
          trees.push(['exact', exact])
          const others = [...names].filter((n) => ALT[n] && !touched.includes(n))
          trees.push(['exact plus unrelated marks', Object.assign({ zz: true }, Object.fromEntries(others.slice(0, 2).map((n) => [n, true])), exact)])
        }
        for (const [tn, tree] of trees) {
          let got
          try {
            const comp = D.create(bundle, MAIN, init, updateMode)
            comp._$tmplInst.procGenWrapper.update(clone(d1), tree)
            got = D.serialize(comp.shadowRoot)
          } catch (e) { got = 'throws ' + String(e).slice(0, 160) }
          rep.transitions += 1
          rep.evaluations += 1
          if (got !== want) {
            failed = true
            rep.violation(`C06|direct:${tn}|${cs.name.replace(/\|syntax.*/, '')}`, `template ${JSON.stringify(cs.__src)} (${cs.name}): ProcGenWrapper.update with the new data of ${JSON.stringify(t1.label)} from initial state ${ii} and the ${tn} update-path tree ${key(tree)} leaves ${got}, a fresh creation with the same data gives ${want}`,
              { engine: 'c06', case: cs.name, initial: ii, direct: { ops: encFns(t1.ops), tree, kind: tn }, history: [], labels: [t1.label + ' (direct, ' + tn + ')'] })
            break
          }
        }
      }
    })
  }
  rep.outcome([failed, cs.name.replace(/\(.*/, ''), seen.size])
  if (seen.size > 1) rep.nontrivialCase(cs.name)
}

/** C14 (update-equivalence clause): the bundle of the original and the bundle of its re-printed text behave alike on the real
 *  runtime — at creation from both initial states and after every enabled transition (and a reduced second one in the thorough tier) */
function exploreEquivalence(cs, bundle, bundle2, rep, depth2) {
  const names = G.collectNames([cs.main, cs.files])
  let failed = false
  const differs = (labels, init, a, b, ops) => {
    if (failed) return
    failed = true
    rep.violation(`C14|update-equivalence|${cs.name.replace(/\|syntax.*/, '')}`, `template ${JSON.stringify(cs.__src)} (${cs.name}) and its re-printed text ${JSON.stringify(cs.__printed)}: ${labels.length ? 'after ' + JSON.stringify(labels) + ' ' : 'at creation '}from initial state ${init} the original shows ${a}, the re-printed one ${b}`,
      { engine: 'c14u', case: cs.name, initial: init, history: encFns(ops), labels })
  }
  const run = (b, init, ts) => {
    try {
      const comp = D.create(b, MAIN, init, undefined)
      for (const t of ts) applyToInstance(comp, t)
      return D.serialize(comp.shadowRoot)
    } catch (e) { return 'throws ' + String(e).slice(0, 120) }
  }
  const seen = new Set()
  INITIAL.forEach((init, ii) => {
    rep.evaluations += 2
    const a0 = run(bundle, init, []); const b0 = run(bundle2, init, [])
    if (a0 !== b0) { differs([], ii, a0, b0, []); return }
    for (const t1 of transitions(init, names, false)) {
      const d1 = applyToData(init, t1)
      rep.transitions += 1
      rep.evaluations += 2
      const k1 = ii + '|' + key(d1)
      if (!seen.has(k1)) { seen.add(k1); rep.states += 1 }
      const a1 = run(bundle, init, [t1]); const b1 = run(bundle2, init, [t1])
      if (a1 !== a0) rep.nontrivial += 1
      if (a1 !== b1) { differs([t1.label], ii, a1, b1, [t1.ops]); continue }
      if (!depth2) continue
      for (const t2 of transitions(d1, names, true)) {
        rep.transitions += 1
        rep.evaluations += 2
        const k2 = ii + '|' + key(applyToData(d1, t2))
        if (!seen.has(k2)) { seen.add(k2); rep.states += 1 }
        const a2 = run(bundle, init, [t1, t2]); const b2 = run(bundle2, init, [t1, t2])
        if (a2 !== b2) differs([t1.label, t2.label], ii, a2, b2, [t1.ops, t2.ops])
      }
    }
  })
  rep.outcome([failed, cs.name.replace(/\(.*/, ''), seen.size])
  if (cs.__printed !== cs.__src) rep.nontrivialCase(cs.name)
}

// ---------------------------------------------------------------------------------------------
// slot-scope content: the element `c` is a component with dynamic slots whose template provides the slot values;
// histories interleave updates of the parent's data with updates of the child's data (slot values change, slot
// instances appear and disappear)

const K_TEMPLATE = '<span>{{p}}|{{val}}|{{style}}|{{item2}}</span>'
const CHILD_TEMPLATES = {
  'comp/single': '<slot u="{{p}}" u-v="{{p}}" v="{{p}}" a="{{q}}" zz="{{q}}" w="{{q}}"/><slot name="s" u="{{p}}" v="{{q}}"/>',
  'comp/repeated': '<block wx:for="{{ps}}"><slot u="{{item}}" u-v="{{item}}" v="{{item}}" a="{{q}}"/></block><slot name="s" u="{{p}}"/>',
  'comp/conditional': '<block wx:if="{{on}}"><slot u="{{p}}" u-v="{{q}}" v="{{p}}"/></block><slot wx:else name="s" u="{{q}}"/>',
  // two slots of the same name: the content is instantiated once per slot
  'comp/double': '<div><slot u="{{p}}" v="{{q}}"/></div><div><slot u="{{q}}" v="{{p}}"/></div><slot name="s" u="{{p}}"/>',
}
const CHILD_INITIAL = { p: 'P', q: 'Q', ps: ['p1', 'p2'], on: 1 }
const CHILD_ALT = { p: ['P', 'P2', undefined, { b: 'pb' }, 0], q: ['Q', 'Q2', undefined], ps: [['p1', 'p2'], [], ['p1'], ['p2', 'p1'], ['p1', 'p2', 'p3'], ['p0', 'p1', 'p2']], on: [1, 0] }
const CHILD_FIELDS = { 'comp/single': ['p', 'q'], 'comp/repeated': ['ps', 'q', 'p'], 'comp/conditional': ['on', 'p', 'q'], 'comp/double': ['p', 'q'] }

function childTransitions(cdata, child) {
  const out = []
  for (const f of CHILD_FIELDS[child]) for (const v of CHILD_ALT[f]) {
    if (key(v) === key(cdata[f])) continue
    out.push({ label: `child: ${f} = ${key(v)}`, child: true, ops: [{ path: [f], value: v }] })
  }
  return out
}

function exploreSlotCase(cs, bundle, rep, thorough) {
  const names = G.collectNames([cs.main, cs.files])
  const updateMode = MODE === 'C06' ? 'virtualTree' : undefined
  for (const childPath of Object.keys(CHILD_TEMPLATES)) {
    const extra = (cdata) => ({ using: true, slotTemplate: { content: bundle[childPath], groupList: bundle }, slotData: cdata })
    const freshCache = new Map()
    const fresh = (data, cdata) => {
      const k = key([data, cdata])
      if (!freshCache.has(k)) freshCache.set(k, D.serialize(D.create(bundle, MAIN, data, updateMode, extra(cdata)).shadowRoot))
      return freshCache.get(k)
    }
    const apply = (comp, t) => {
      if (!t.child) { applyToInstance(comp, t); return true }
      const child = D.findChild(comp.shadowRoot)
      if (!child) return false
      child.groupUpdates(() => { for (const op of t.ops) child.replaceDataOnPath(op.path, clone(op.value)) })
      return true
    }
    const seen = new Set()
    let failed = false
    INITIAL.forEach((init, ii) => {
      if (failed) return
      const step1 = [...transitions(init, names, true), ...childTransitions(CHILD_INITIAL, childPath)]
      for (const t1 of step1) {
        if (failed) return
        const d1 = t1.child ? init : applyToData(init, t1)
        const c1 = t1.child ? applyToData(CHILD_INITIAL, t1) : CHILD_INITIAL
        // (two successive changes of the LIST of slot instances - ps, on - are not explored: the core runtime's bookkeeping of
        //  dynamic slots (element.ts / shadow_root.ts, and the removal ranges in proc_gen_wrapper.ts) loses content there; that is
        //  outside the update-path soundness C06 states, see notes/runtime-dynamic-slot-list.md)
        const listField = (t) => t.child && (t.ops[0].path[0] === 'ps' || t.ops[0].path[0] === 'on')
        const second = [null, ...(t1.child ? transitions(d1, names, true) : childTransitions(c1, childPath)), ...(thorough && t1.child ? childTransitions(c1, childPath).filter((t) => !(listField(t1) && listField(t))) : [])]
        for (const t2 of second) {
          const d2 = !t2 || t2.child ? d1 : applyToData(d1, t2)
          const c2 = t2 && t2.child ? applyToData(c1, t2) : c1
          let got
          const labels = t2 ? [t1.label, t2.label] : [t1.label]
          let skip = null
          try {
            const comp = D.create(bundle, MAIN, init, updateMode, extra(CHILD_INITIAL))
            // the child's data belongs to one child instance: the history is only meaningful while exactly that one instance
            // exists (a parent update that re-creates or duplicates the child starts it again from its initial data)
            const kids0 = D.findChildren(comp.shadowRoot)
            if (kids0.length !== 1) skip = 'not-exactly-one-slot-providing-child'
            else {
              if (!apply(comp, t1)) continue
              if (t2 && !apply(comp, t2)) continue
              const kids1 = D.findChildren(comp.shadowRoot)
              if (kids1.length !== 1 || kids1[0] !== kids0[0]) skip = 'slot-providing-child-was-recreated'
              got = D.serialize(comp.shadowRoot)
            }
          } catch (e) { got = 'throws ' + String(e).slice(0, 160) }
          if (skip) { rep.count('slot-history-skipped:' + skip); continue }
          rep.transitions += t2 ? 2 : 1
          rep.evaluations += 1
          const k2 = ii + '|' + key([d2, c2])
          if (!seen.has(k2)) { seen.add(k2); rep.states += 1 }
          let want
          try { want = fresh(d2, c2) } catch (e) { want = 'throws ' + String(e).slice(0, 160) }
          if (want !== fresh(init, CHILD_INITIAL)) rep.nontrivial += 1
          if (got !== want) {
            failed = true
            rep.violation(`${MODE}|slot-scope|${childPath}|${cs.name.replace(/\|syntax.*/, '')}`, `template ${JSON.stringify(cs.__src)} (${cs.name}) with the slot-providing child ${JSON.stringify(CHILD_TEMPLATES[childPath])}: after ${JSON.stringify(labels)} from initial state ${ii} the tree is ${got} but a fresh creation with parent data ${key(d2)} and child data ${key(c2)} gives ${want}`,
              { engine: MODE.toLowerCase(), case: cs.name, slot: childPath, initial: ii, history: encFns([t1, t2].filter(Boolean).map((t) => ({ child: !!t.child, ops: t.ops }))), labels })
            break
          }
        }
      }
    })
    rep.outcome(['slot', failed, childPath, cs.name.replace(/\(.*/, ''), seen.size])
    if (seen.size > 1) rep.nontrivialCase(cs.name + '|' + childPath)
  }
}

// ---------------------------------------------------------------------------------------------
// conformance of substrate B (second engine of C04): the recording runtime and the real runtime must build the same
// skeleton (tags, nesting, text, dataset, marks, slot elements) from the same bundle and data

function skeletonB(nodes) {
  const out = []
  const walk = (n, acc) => {
    if (n.t === 'text') { acc.push(JSON.stringify(n.text)); return }
    if (n.t === 'slot') {
      acc.push(`<slot name=${JSON.stringify(n.name)}>`)
      return
    }
    if (n.t !== 'el') { (n.children || []).forEach((c) => walk(c, acc)); return }
    const ds = {}; const marks = {}
    for (const a of n.attrs) { if (a[0] === 'dataset') ds[a[1]] = a[2]; if (a[0] === 'mark') marks[a[1]] = a[2] }
    const parts = []
    if (Object.keys(ds).length) parts.push('dataset=' + D.showValue(ds))
    if (Object.keys(marks).length) parts.push('marks=' + D.showValue(marks))
    if (n.tag === 'k') {
      // plain and model: attributes of the child component reach the property of the normalised name (the compiler's rule)
      const props = { p: null, val: null, item2: null }
      for (const a of n.attrs) if (a[0] === 'attr') { const nm = T.dashToCamel(a[1]); if (nm in props) props[nm] = a[2] ?? null } // (an untyped property keeps null for undefined)
      parts.push('props=' + D.showValue(props))
    }
    const inner = []
    n.children.forEach((c) => walk(c, inner))
    acc.push(`<${n.tag}${parts.length ? ' ' + parts.join(' ') : ''}>${inner.join('')}</${n.tag}>`)
  }
  nodes.forEach((c) => walk(c, out))
  return out.join('')
}

function exploreConformance(cs, bundle, code, rep) {
  const names = G.collectNames([cs.main, cs.files])
  const Gs = RT.loadGroups(code, false)
  const datas = []
  INITIAL.forEach((init) => { datas.push(init); for (const t of transitions(init, names, false)) datas.push(applyToData(init, t)) })
  const seen = new Set()
  for (const data of datas) {
    const k = key(data)
    if (seen.has(k)) continue
    seen.add(k)
    rep.states += 1; rep.transitions += 1; rep.evaluations += 2
    let a, b
    try { a = D.skeleton(D.create(bundle, MAIN, data, undefined).shadowRoot) } catch (e) { a = 'throws ' + String(e).slice(0, 100) }
    try { b = skeletonB(RT.render(Gs, MAIN, clone(data)).nodes) } catch (e) { b = 'throws ' + String(e).slice(0, 100) }
    rep.outcome([a === b, a.length])
    if (a !== b) {
      rep.violation(`C04|substrate-conformance|${cs.name.replace(/\(.*/, '')}`, `MACHINERY-LEVEL DISAGREEMENT: for template ${JSON.stringify(cs.__src)} (${cs.name}) with data ${k} the real runtime builds ${a} but the recording runtime builds ${b}`, { engine: 'c04conf', case: cs.name, data: k })
      return
    }
  }
  if (seen.size > 1) rep.nontrivialCase(cs.name)
}

/** local-name walk (see tmplgen.localWalkCases): explored at history depth 1 */
function walkCorpus(thorough) {
  return MODE === 'C06' || MODE === 'C07' ? G.localWalkCases(thorough ? 230 : 112, 1) : []
}
function corpus(thorough) {
  return [...G.corpus(thorough).filter(usable), ...walkCorpus(thorough)]
}
function slotCorpus(thorough) {
  // (content of the element c without slot: references is explored here as well: c is then a component with dynamic slots)
  return MODE === 'C14' || MODE === 'C04' ? [] : G.corpus(thorough).filter((c) => !usable(c) || JSON.stringify(c.main).includes('"tag":"c"'))
}

function runShard(info, thorough) {
  const rep = new C.Report()
  const all = [...corpus(thorough), ...slotCorpus(thorough).map((c) => Object.assign({ slotCase: true }, c))]
  const mine = all.filter((_, i) => i % info.of === info.shard)
  const CH = 200
  for (let s = 0; s < mine.length; s += CH) {
    const part = mine.slice(s, s + CH)
    const jobs = part.map((cs, i) => {
      const files = [[MAIN, T.print(cs.main).text]]
      for (const p of Object.keys(cs.files)) files.push([p, T.print(cs.files[p]).text])
      if (cs.slotCase) for (const p of Object.keys(CHILD_TEMPLATES)) files.push([p, CHILD_TEMPLATES[p]])
      if (JSON.stringify(cs.main).includes('"tag":"k"')) files.push(['comp/k', K_TEMPLATE])
      return { id: i, files, scripts: Object.keys(cs.scripts).map((p) => [p, cs.scripts[p]]), want: MODE === 'C14' ? ['groups', 'stringify'] : ['groups'] }
    })
    const res = C.compileBatch(jobs, 1)
    let res2 = null
    if (MODE === 'C14') {
      const jobs2 = jobs.map((j, i) => ({ id: i, files: j.files.map((f) => [f[0], res[i].panic || !res[i].outputs['stringify:' + f[0]] || res[i].outputs['stringify:' + f[0]].ok === undefined ? f[1] : res[i].outputs['stringify:' + f[0]].ok]), scripts: j.scripts, want: ['groups'] }))
      res2 = C.compileBatch(jobs2, 1)
      part.forEach((cs, i) => { cs.__printed = jobs2[i].files.map((f) => f[1]).join(' | ') })
    }
    part.forEach((cs, i) => {
      cs.__src = jobs[i].files.map((f) => f[1]).join(' | ')
      if (res[i].panic) { rep.machineryErrors.push('compiler panicked on ' + cs.name); return }
      let bundle
      try { bundle = D.loadBundle(res[i].outputs.groups.ok) } catch (e) { rep.machineryErrors.push('bundle does not load: ' + cs.name + ' ' + e); return }
      try {
        if (MODE === 'C14') {
          if (res2[i].panic) { rep.machineryErrors.push('compiler panicked on the printed text of ' + cs.name); return }
          let printedBundle
          // the original loads: a printed text whose bundle does not is not an inverse of the parse
          try { printedBundle = D.loadBundle(res2[i].outputs.groups.ok) } catch (e) { rep.violation(`C14|printed-bundle-does-not-load|${cs.name.replace(/\(.*/, '')}`, `the code generated for ${JSON.stringify(cs.__src)} loads, the code generated for its printed text ${JSON.stringify(cs.__printed)} does not: ${e} (${cs.name})`, { engine: 'c14u', case: cs.name, initial: 0, history: [] }); return }
          exploreEquivalence(cs, bundle, printedBundle, rep, thorough)
        } else if (MODE === 'C04') exploreConformance(cs, bundle, res[i].outputs.groups.ok, rep)
        else if (cs.slotCase) exploreSlotCase(cs, bundle, rep, thorough)
        else exploreCase(cs, bundle, rep, !cs.walk)
      } catch (e) { rep.machineryErrors.push(`explorer failed on ${cs.name}: ${e && e.stack}`) }
      if ((s + i) % 307 === 0) rep.sample({ case: cs.name, template: cs.__src, initial_states: 2 })
    })
  }
  D.takeWarnings()
  return rep
}

function replayOne(rec) {
  if (rec.history) rec.history = decFns(rec.history)
  if (rec.direct) rec.direct.ops = decFns(rec.direct.ops)
  if (MODE === 'C04') {
    const cs = G.corpus(true).find((c) => c.name === rec.case)
    if (!cs) return { deterministic: true, failure: null, note: 'case no longer in the corpus' }
    const files = [[MAIN, T.print(cs.main).text]]
    for (const p of Object.keys(cs.files)) files.push([p, T.print(cs.files[p]).text])
    const r = C.compileBatch([{ id: 0, files, scripts: Object.keys(cs.scripts).map((p) => [p, cs.scripts[p]]), want: ['groups'] }], 1)[0]
    cs.__src = files.map((f) => f[1]).join(' | ')
    const once = () => { const rep = new C.Report(); exploreConformance(cs, D.loadBundle(r.outputs.groups.ok), r.outputs.groups.ok, rep); return [...rep.violations.values()].map((v) => v.what.slice(0, 400)) }
    const a = once(); const b = once()
    return { deterministic: key(a) === key(b), failure: a.length ? a : null }
  }
  if (MODE === 'C14') {
    const cs = G.corpus(true).find((c) => c.name === rec.case)
    if (!cs) return { deterministic: true, failure: null, note: 'case no longer in the corpus' }
    const files = [[MAIN, T.print(cs.main).text]]
    for (const p of Object.keys(cs.files)) files.push([p, T.print(cs.files[p]).text])
    const scripts = Object.keys(cs.scripts).map((p) => [p, cs.scripts[p]])
    const r1 = C.compileBatch([{ id: 0, files, scripts, want: ['groups', 'stringify'] }], 1)[0]
    const r2 = C.compileBatch([{ id: 0, files: files.map((f) => [f[0], r1.outputs['stringify:' + f[0]].ok]), scripts, want: ['groups'] }], 1)[0]
    const once = () => [r1, r2].map((r) => { let b; try { b = D.loadBundle(r.outputs.groups.ok) } catch (e) { return 'does not load: ' + e } const comp = D.create(b, MAIN, INITIAL[rec.initial], undefined); for (const ops of rec.history) applyToInstance(comp, { ops }); return D.serialize(comp.shadowRoot) })
    const a = once(); const b = once()
    return { deterministic: key(a) === key(b), failure: a[0] === a[1] ? null : `original ${a[0]} vs re-printed ${a[1]}` }
  }
  const cs = [...G.corpus(true), ...G.localWalkCases(230, 1)].find((c) => c.name === rec.case)
  if (!cs) return { deterministic: true, failure: null, note: 'case no longer in the corpus' }
  const files = [[MAIN, T.print(cs.main).text]]
  for (const p of Object.keys(cs.files)) files.push([p, T.print(cs.files[p]).text])
  if (rec.slot) for (const p of Object.keys(CHILD_TEMPLATES)) files.push([p, CHILD_TEMPLATES[p]])
  if (JSON.stringify(cs.main).includes('"tag":"k"')) files.push(['comp/k', K_TEMPLATE])
  const res = C.compileBatch([{ id: 0, files, scripts: Object.keys(cs.scripts).map((p) => [p, cs.scripts[p]]), want: ['groups'] }], 1)[0]
  const bundle = D.loadBundle(res.outputs.groups.ok)
  const updateMode = MODE === 'C06' ? 'virtualTree' : undefined
  if (rec.slot) {
    const extra = (cdata) => ({ using: true, slotTemplate: { content: bundle[rec.slot], groupList: bundle }, slotData: cdata })
    const once = () => {
      let data = INITIAL[rec.initial]; let cdata = CHILD_INITIAL; let got
      for (const t of rec.history) { if (t.child) cdata = applyToData(cdata, t); else data = applyToData(data, t) }
      try {
        const comp = D.create(bundle, MAIN, INITIAL[rec.initial], updateMode, extra(CHILD_INITIAL))
        for (const t of rec.history) {
          if (t.child) { const child = D.findChild(comp.shadowRoot); child.groupUpdates(() => { for (const op of t.ops) child.replaceDataOnPath(op.path, clone(op.value)) }) } else applyToInstance(comp, t)
        }
        got = D.serialize(comp.shadowRoot)
      } catch (e) { got = 'throws ' + String(e).slice(0, 160) }
      const want = D.serialize(D.create(bundle, MAIN, data, updateMode, extra(cdata)).shadowRoot)
      return got === want ? null : `after the history the tree is ${got}, a fresh creation gives ${want}`
    }
    const a = once(); const b = once()
    return { deterministic: a === b, failure: a }
  }
  if (rec.direct) {
    const once = () => {
      const init = INITIAL[rec.initial]
      const d1 = applyToData(init, { ops: rec.direct.ops })
      let got
      try { const comp = D.create(bundle, MAIN, init, updateMode); comp._$tmplInst.procGenWrapper.update(clone(d1), rec.direct.tree); got = D.serialize(comp.shadowRoot) } catch (e) { got = 'throws ' + String(e).slice(0, 160) }
      const want = D.serialize(D.create(bundle, MAIN, d1, updateMode).shadowRoot)
      return got === want ? null : `after the direct update the tree is ${got}, a fresh creation gives ${want}`
    }
    const a = once(); const b = once()
    return { deterministic: a === b, failure: a }
  }
  const run = () => {
    const init = INITIAL[rec.initial]
    const comp = D.create(bundle, MAIN, init, updateMode)
    let data = init
    for (const ops of rec.history) { applyToInstance(comp, { ops }); data = applyToData(data, { ops }) }
    const got = D.serialize(comp.shadowRoot)
    const want = D.serialize(D.create(bundle, MAIN, data, updateMode).shadowRoot)
    return got === want ? null : `after the history the tree is ${got}, a fresh creation gives ${want}`
  }
  const a = run(); const b = run()
  return { deterministic: a === b, failure: a }
}

async function main() {
  const replay = C.argAfter('--replay', null)
  if (replay) { console.log(JSON.stringify(replayOne(JSON.parse(fs.readFileSync(replay, 'utf8'))))); return }
  const thorough = C.argAfter('--tier', 'quick') === 'thorough'
  const info = C.shardInfo()
  if (info) {
    const rep = runShard(info, thorough)
    fs.writeFileSync(info.partial, JSON.stringify(rep.toPartial()))
    return
  }
  const rep = await C.runSharded(fileURLToPath(import.meta.url), ['--tier', thorough ? 'thorough' : 'quick', '--property', MODE], NODE22, ['--no-warnings', '--stack-size=4000', '--import', HOOKS])
  if (MODE === 'C04') {
    const res04 = rep.toResult('C04',
      'conformance of the recording runtime (substrate B) with the real TypeScript runtime (substrate A): for every template of the model corpus (dynamic-slot content excluded) and every data state reachable by one transition from the two initial states, both runtimes execute the same bundle and must build the same skeleton (tags, nesting, text, dataset, marks, slot elements and their names)',
      { corpus: corpus(thorough).length, initial_states: INITIAL.length }, true, ['a disagreement here is a defect of the checking machinery (or of the real runtime), not of the compiler: it is reported so that it cannot go unnoticed'], {})
    C.writeResult(C.argAfter('--out', C.WORK + '/C04.result.json'), res04)
    return
  }
  if (MODE === 'C14') {
    const res14 = rep.toResult('C14',
      'update-equivalence clause on the real runtime: for every template of the model corpus (dynamic-slot content excluded), the bundle of the original and the bundle of its re-printed text are instantiated side by side from two initial data states and driven through every enabled transition (quick) and a reduced second transition from every reached state (thorough); the serialised shadow trees must be equal at creation and after every history. non-trivial = the printed text differs from the input',
      { corpus: corpus(thorough).length, history_depth: thorough ? 2 : 1, initial_states: INITIAL.length },
      true, ['the real TypeScript runtime through the node 22 loader', 'differential oracle between the two bundles'], {})
    C.writeResult(C.argAfter('--out', C.WORK + '/C14.result.json'), res14)
    return
  }
  const res = rep.toResult(MODE,
    'explicit-state exploration of update histories on the real runtime: for every template of the model corpus (dynamic-slot content excluded) and two initial data states, every enabled transition (each field to each alternative value of its pool, an exact nested path, every pair of fields and all fields in one update, 13 list operations through splices / item writes / whole-list replacement) and from every reached state a second, reduced transition set; invariant: tree after the history == tree of a fresh instance with the same data. states = distinct (template, data) reached; non-trivial = the update changed the rendered tree',
    { corpus: corpus(thorough).length, history_depth: 2, initial_states: INITIAL.length, update_mode: MODE === 'C06' ? 'virtualTree (tree update)' : 'default (binding map first, tree update as fallback)' },
    true,
    ['the real TypeScript runtime is loaded unmodified through the node 22 type-stripping loader (DESIGN A.1)', 'our own serialiser of the shadow tree (text, tags, id / slot / class / style, attributes, dataset, marks; virtual wrappers flattened)', 'differential oracle: no expected value is written by hand'],
    {})
  C.writeResult(C.argAfter('--out', C.WORK + '/' + MODE + '.result.json'), res)
}
main().catch((e) => { console.error(e); process.exit(3) })
