// Loader for the real glass-easel TypeScript runtime under node 22 (module.registerHooks +
// stripTypeScriptTypes): resolves extensionless imports, erases type-only imports / exports,
// inlines const enums, drops imports that are unused after stripping (see DESIGN.md A.1).
import { registerHooks, stripTypeScriptTypes } from 'node:module';
import fs from 'node:fs';
import path from 'node:path';
import { fileURLToPath, pathToFileURL } from 'node:url';
function resolveTs(base, specifier) {
  const p = path.resolve(base, specifier);
  for (const cand of [p + '.ts', path.join(p, 'index.ts')]) if (fs.existsSync(cand)) return cand;
  return null;
}

let _ce = null;
function constEnums() {
  if (_ce) return _ce;
  _ce = new Map();
  const root = '/repo/glass-easel/src';
  const walk = (d) => { for (const e of fs.readdirSync(d, { withFileTypes: true })) { const p = path.join(d, e.name); if (e.isDirectory()) walk(p); else if (p.endsWith('.ts')) files.push(p); } };
  const files = []; walk(root);
  for (const f of files) {
    const src = fs.readFileSync(f, 'utf8');
    for (const m of src.matchAll(/^export\s+const\s+enum\s+([A-Za-z0-9_$]+)\s*\{([^}]*)\}/gm)) {
      const members = {}; let next = 0;
      const body = m[2].replace(/\/\/.*$/gm, '').replace(/\/\*[\s\S]*?\*\//g, '');
      for (const part of body.split(',').map(x => x.trim()).filter(Boolean)) {
        const mm = part.match(/^([A-Za-z0-9_$]+)\s*(?:=\s*(.+))?$/s);
        if (!mm) throw new Error('cannot parse const enum member ' + part + ' in ' + f);
        if (mm[2] !== undefined) { const v = mm[2].trim(); members[mm[1]] = v; if (/^-?\d+$/.test(v)) next = Number(v) + 1; else next = NaN; }
        else { members[mm[1]] = String(next); next += 1; }
      }
      if (_ce.has(m[1])) throw new Error('duplicate const enum ' + m[1]);
      _ce.set(m[1], members);
    }
  }
  return _ce;
}
const info = new Map(); // file -> {values:Set, stars:[file], reexports:[[exported, orig, file]], done}
function analyse(file) {
  if (info.has(file)) return info.get(file);
  const rec = { values: new Set(), stars: [], re: [] };
  info.set(file, rec);
  const src = fs.readFileSync(file, 'utf8');
  const base = path.dirname(file);
  const localValues = new Set();
  for (const m of src.matchAll(/^(export\s+)?(?:declare\s+)?(?:default\s+)?(?:abstract\s+)?(?:async\s+)?(const\s+enum|const|let|var|function\*?|class|enum)\s+([A-Za-z0-9_$]+)/gm)) {
    localValues.add(m[3]);
    if (m[1]) rec.values.add(m[3]);
  }
  // value imports are local values too
  for (const m of src.matchAll(/^import\s+(?!type\b)(?:([A-Za-z0-9_$]+)\s*,?\s*)?(?:\*\s+as\s+([A-Za-z0-9_$]+)|\{([^}]*)\})?\s*from\s*['"]([^'"]+)['"]/gm)) {
    if (m[1]) localValues.add(m[1]);
    if (m[2]) localValues.add(m[2]);
    if (m[3]) for (const n of m[3].split(',').map(x => x.trim()).filter(Boolean)) {
      if (n.startsWith('type ')) continue;
      const parts = n.split(/\s+as\s+/); const local = (parts[1] || parts[0]).trim();
      const target = m[4].startsWith('.') ? resolveTs(base, m[4]) : null;
      if (!target) { localValues.add(local); continue; }
      rec.re.push(['#local:' + local, parts[0].trim(), target]);
    }
  }
  for (const m of src.matchAll(/^export\s+(type\s+)?\{([^}]*)\}(?:\s*from\s*['"]([^'"]+)['"])?/gm)) {
    if (m[1]) continue;
    for (const n of m[2].split(',').map(x => x.trim()).filter(Boolean)) {
      if (n.startsWith('type ')) continue;
      const parts = n.split(/\s+as\s+/); const orig = parts[0].trim(); const exported = (parts[1] || parts[0]).trim();
      if (m[3]) {
        const target = m[3].startsWith('.') ? resolveTs(base, m[3]) : null;
        if (target) rec.re.push([exported, orig, target]); else rec.values.add(exported);
      } else rec.re.push([exported, '#local:' + orig, file]);
    }
  }
  for (const m of src.matchAll(/^export\s+\*\s+(?:as\s+([A-Za-z0-9_$]+)\s+)?from\s*['"]([^'"]+)['"]/gm)) {
    if (m[1]) { rec.values.add(m[1]); continue; }
    const target = resolveTs(base, m[2]); if (target) rec.stars.push(target);
  }
  rec.localValues = localValues;
  return rec;
}
function hasValue(file, name, seen = new Set()) {
  const key = file + '|' + name; if (seen.has(key)) return false; seen.add(key);
  const rec = analyse(file);
  if (name.startsWith('#local:')) {
    const l = name.slice(7);
    if (rec.localValues.has(l)) return true;
    for (const [exp, orig, target] of rec.re) if (exp === name && hasValue(target, orig, seen)) return true;
    return false;
  }
  if (rec.values.has(name)) return true;
  for (const [exp, orig, target] of rec.re) if (exp === name && hasValue(target, orig, seen)) return true;
  for (const t of rec.stars) if (hasValue(t, name, seen)) return true;
  return false;
}
registerHooks({
  resolve(specifier, context, nextResolve) {
    if ((specifier.startsWith('./') || specifier.startsWith('../')) && context.parentURL && context.parentURL.startsWith('file:')) {
      const base = path.dirname(fileURLToPath(context.parentURL));
      const cand = resolveTs(base, specifier);
      if (cand) return { url: pathToFileURL(cand).href, shortCircuit: true, format: 'module' };
    }
    return nextResolve(specifier, context);
  },
  load(url, context, nextLoad) {
    if (url.startsWith('file:') && url.endsWith('.ts')) {
      const file = fileURLToPath(url);
      let src = fs.readFileSync(file, 'utf8');
      const base = path.dirname(file);
      src = src.replace(/\b(import|export)\s*\{([^}]*)\}\s*from\s*['"]([^'"]+)['"]/g, (all, kw, names, spec) => {
        if (!spec.startsWith('.')) return all;
        const target = resolveTs(base, spec);
        if (!target) return all;
        const kept = names.split(',').map(x => x.trim()).filter(Boolean).map(n => {
          if (n.startsWith('type ')) return n;
          const nm = n.split(/\s+as\s+/)[0].trim();
          return hasValue(target, nm) ? n : 'type ' + n;
        });
        if (kept.length > 0 && kept.every(n => n.startsWith('type '))) return '';
        return `${kw} { ${kept.join(', ')} } from '${spec}'`;
      });
      src = src.replace(/^import\s*\{([^}]*)\}\s*from\s*['"][^'"]+['"];?/gm, (all, names) => {
        const list = names.split(',').map(x => x.trim()).filter(Boolean);
        return list.length > 0 && list.every(n => n.startsWith('type ')) ? '' : all;
      });
      src = src.replace(/^import\s+type\s[^;\n]*from\s*['"][^'"]+['"];?/gm, '');
      let js = stripTypeScriptTypes(src, { mode: 'transform' });
      for (const [en, members] of constEnums()) {
        if (!new RegExp('(?<![A-Za-z0-9_$.])' + en + '\\.').test(js)) continue;
        js = js.replace(new RegExp('(?<![A-Za-z0-9_$.])' + en + '\\.([A-Za-z0-9_$]+)', 'g'), (all, m) => (m in members ? members[m] : all));
      }
      js = js.replace(/^import\s*\{([^}]*)\}\s*from\s*(['"][^'"]+['"]);?/gm, (all, names, spec) => {
        const rest = js.replace(all, '');
        const kept = names.split(',').map(x => x.trim()).filter(Boolean).filter(n => {
          const parts = n.split(/\s+as\s+/); const local = (parts[1] || parts[0]).trim();
          return new RegExp('(?<![A-Za-z0-9_$.])' + local.replace(/\$/g,'\\$') + '(?![A-Za-z0-9_$])').test(rest.replace(/^import\s*\{[^}]*\}\s*from\s*['"][^'"]+['"];?/gm, ''));
        });
        if (kept.length === 0) return names.trim() === '' ? '' : '';
        return `import { ${kept.join(', ')} } from ${spec}`;
      });
      return { format: 'module', source: js, shortCircuit: true };
    }
    return nextLoad(url, context);
  },
});
