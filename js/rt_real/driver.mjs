// Substrate A: the real glass-easel runtime (loaded through hooks.mjs) driven through its public API.
import * as ge from '/repo/glass-easel/src/index.ts'

ge.globalOptions.throwGlobalError = true
const warnings = []
ge.addGlobalWarningListener((msg) => { warnings.push(String(msg)); return false })

let counter = 0

export function loadBundle(code) {
  // eslint-disable-next-line no-new-func
  return new Function('return ' + code)()
}

/** create a component instance from a compiled bundle */
export function create(groupList, path, data, updateMode, extra) {
  const space = new ge.ComponentSpace()
  counter += 1
  // a component with dynamic slots for elements named `c` (slot-scope templates)
  const slotComp = space.defineComponent({ is: 'c', options: { dynamicSlots: true }, template: extra && extra.slotTemplate ? extra.slotTemplate : undefined, data: extra && extra.slotData ? structuredCloneLoose(extra.slotData) : undefined })
  // elements named `k` are a child component with two untyped properties that renders them (property changes only
  // show once the child applied them)
  const using = {}
  if (extra && extra.using) using.c = slotComp
  if (groupList['comp/k']) using.k = space.defineComponent({ is: 'k', properties: { p: null, val: null, style: null, item2: null }, template: { content: groupList['comp/k'], groupList } })
  const def = space.defineComponent({
    is: 'root' + counter,
    using: Object.keys(using).length ? using : undefined,
    template: { content: groupList[path], groupList, updateMode },
    data: structuredCloneLoose(data),
  })
  const comp = ge.Component.createWithContext('root', def, new ge.EmptyComposedBackendContext())
  return comp
}

function structuredCloneLoose(v) {
  if (typeof v === 'function' || v === null || typeof v !== 'object') return v
  if (Array.isArray(v)) return v.map(structuredCloneLoose)
  const o = {}
  for (const k of Object.keys(v)) o[k] = structuredCloneLoose(v[k])
  return o
}

function showValue(v, depth = 0) {
  if (typeof v === 'function') return 'fn:' + String(v).slice(0, 40)
  if (Object.is(v, -0)) return '-0'
  if (typeof v === 'string') return JSON.stringify(v)
  if (typeof v !== 'object' || v === null) return String(v)
  if (depth > 4) return '…'
  if (Array.isArray(v)) return '[' + v.map((x) => showValue(x, depth + 1)).join(',') + ']'
  return '{' + Object.keys(v).sort().map((k) => k + ':' + showValue(v[k], depth + 1)).join(',') + '}'
}

/** our own serialiser of the shadow tree (virtual wrappers flattened, like the canonical tree of substrate B) */
export function serialize(node) {
  const out = []
  const walk = (n, acc) => {
    if (n instanceof ge.TextNode) { acc.push(JSON.stringify(n.textContent)); return }
    if (n instanceof ge.VirtualNode && !(n instanceof ge.ShadowRoot)) {
      if (n._$slotName !== null && n._$slotName !== undefined) {
        const vals = n._$slotValues ? Object.keys(n._$slotValues).sort().map((k) => k + '=' + showValue(n._$slotValues[k])).join(' ') : ''
        acc.push(`<slot name=${JSON.stringify(n._$slotName)} ${vals}${n.slot ? ' slot=' + JSON.stringify(n.slot) : ''}>`)
        return
      }
      if (n.slot) { const inner = []; n.childNodes.forEach((c) => walk(c, inner)); acc.push(`<virtual slot=${JSON.stringify(n.slot)}>${inner.join('')}</virtual>`); return }
      n.childNodes.forEach((c) => walk(c, acc))
      return
    }
    // native node or component
    const parts = []
    if (n.id) parts.push('id=' + JSON.stringify(n.id))
    if (n.slot) parts.push('slot=' + JSON.stringify(n.slot))
    if (n.class) parts.push('class=' + JSON.stringify(n.class))
    if (n.style) parts.push('style=' + JSON.stringify(n.style))
    if (n.attributes) {
      const attrs = n.attributes.map((a) => a.name + '=' + showValue(a.value)).sort()
      parts.push(...attrs)
    }
    if (n.dataset) { const ks = Object.keys(n.dataset).sort(); if (ks.length) parts.push('dataset=' + showValue(n.dataset)) }
    const marks = n._$marks
    if (marks) { const ks = Object.keys(marks).sort(); if (ks.length) parts.push('marks=' + showValue(marks)) }
    const tag = n.is !== undefined ? n.is : n.tagName
    const inner = []
    if (n instanceof ge.Component && n.is === 'k') { const sr = n.getShadowRoot(); if (sr) { inner.push('#shadow['); sr.childNodes.forEach((c) => walk(c, inner)); inner.push(']') } }
    if (n.childNodes) n.childNodes.forEach((c) => walk(c, inner))
    acc.push(`<${tag}${parts.length ? ' ' + parts.join(' ') : ''}>${inner.join('')}</${tag}>`)
  }
  node.childNodes.forEach((c) => walk(c, out))
  return out.join('')
}

/** the first component instance named `c` in document order (the slot-providing child of the slot-scope cases) */
export function findChild(node) {
  for (const n of node.childNodes || []) {
    if (n instanceof ge.Component && n.is === 'c') return n
    const r = findChild(n)
    if (r) return r
  }
  return null
}

/** skeleton of the shadow tree: tags, nesting, text, dataset, marks, slot elements with their values — the part of a tree
 *  whose meaning does not depend on how a backend treats attribute values (used for the conformance run of substrate B) */
export function skeleton(node) {
  const out = []
  const walk = (n, acc) => {
    if (n instanceof ge.TextNode) { acc.push(JSON.stringify(n.textContent)); return }
    if (n instanceof ge.VirtualNode && !(n instanceof ge.ShadowRoot)) {
      if (n._$slotName !== null && n._$slotName !== undefined) {
        // (slot values are only stored by a component with dynamic slots: not part of the skeleton)
        acc.push(`<slot name=${JSON.stringify(n._$slotName)}>`)
        return
      }
      n.childNodes.forEach((c) => walk(c, acc))
      return
    }
    const parts = []
    if (n.dataset) { const ks = Object.keys(n.dataset).sort(); if (ks.length) parts.push('dataset=' + showValue(n.dataset)) }
    const marks = n._$marks
    if (marks) { const ks = Object.keys(marks).sort(); if (ks.length) parts.push('marks=' + showValue(marks)) }
    const tag = n.is !== undefined ? n.is : n.tagName
    // the child component k: which declared property received which value (the runtime side of the name normalisation)
    if (n instanceof ge.Component && n.is === 'k') parts.push('props=' + showValue({ p: n.data.p ?? null, val: n.data.val ?? null, item2: n.data.item2 ?? null }))
    const inner = []
    if (n.childNodes) n.childNodes.forEach((c) => walk(c, inner))
    acc.push(`<${tag}${parts.length ? ' ' + parts.join(' ') : ''}>${inner.join('')}</${tag}>`)
  }
  node.childNodes.forEach((c) => walk(c, out))
  return out.join('')
}
export { showValue }

/** all component instances named `c` in document order */
export function findChildren(node, out = []) {
  for (const n of node.childNodes || []) {
    if (n instanceof ge.Component && n.is === 'c') out.push(n)
    findChildren(n, out)
  }
  return out
}

export function takeWarnings() { const w = warnings.slice(); warnings.length = 0; return w }
export { ge }
