'use strict'
// C04 — creation renders the node tree WXML semantics define.
// Every template of the model corpus, in every concrete-syntax variant, under every data
// environment of the pool for the names it uses: tree produced by the generated code on the
// recording runtime == tree produced by the reference renderer from the model.

const C = require('./lib/common')
const RT = require('./lib/rt_record')
const T = require('./lib/tmplmodel')
const G = require('./lib/tmplgen')

const { MAIN, buildJob, checkCase } = require('./lib/treecheck')

function runShard(info, deep) {
  const rep = new C.Report()
  const corpus = G.corpus(deep)
  const work = []
  corpus.forEach((cs, i) => {
    work.push({ cs, syntax: {}, variant: '', full: true, key: i * 16 })
    // every concrete-syntax variant, one variation at a time, on two environments
    T.SYNTAX_VARIANTS.slice(1).forEach((sx, k) => work.push({ cs, syntax: sx, variant: JSON.stringify(sx), full: false, key: i * 16 + k + 1 }))
  })
  const mine = work.filter((w, i) => i % info.of === info.shard)
  const CH = 400
  for (let s = 0; s < mine.length; s += CH) {
    const part = mine.slice(s, s + CH)
    const jobs = part.map((w, i) => buildJob(w.cs, w.syntax, i))
    const res = C.compileBatch(jobs, 1)
    part.forEach((w, i) => {
      const names = G.collectNames([w.cs.main, w.cs.files])
      let envs = G.environments(names, deep ? 600 : 300)
      if (!w.full) envs = [envs[0], envs[envs.length - 1], envs[Math.floor(envs.length / 2)]]
      res[i].__src = jobs[i].files.map((f) => (jobs[i].files.length > 1 ? f[0] + ': ' : '') + f[1]).join(' | ')
      checkCase(w.cs, w.syntax, res[i], envs, rep, w.variant)
      if (w.key % 1601 === 0) rep.sample({ case: w.cs.name, template: res[i].__src, environments: envs.length })
    })
  }
  return rep
}

function replayOne(rec) {
  const corpus = G.corpus(true)
  const cs = corpus.find((c) => c.name === rec.case)
  if (!cs) return { deterministic: true, failure: null, note: 'case no longer in the corpus' }
  const run = () => {
    const rep = new C.Report()
    const job = buildJob(cs, rec.syntax || {}, 0)
    const res = C.compileBatch([job], 1)[0]
    res.__src = job.files.map((f) => f[1]).join(' | ')
    const names = G.collectNames([cs.main, cs.files])
    checkCase(cs, rec.syntax || {}, res, G.environments(names, 600), rep, '')
    return [...rep.violations.values()].map((v) => v.what)
  }
  const a = run(); const b = run()
  return { deterministic: JSON.stringify(a) === JSON.stringify(b), failure: a.length ? a : null }
}

async function main() {
  const replay = C.argAfter('--replay', null)
  if (replay) { console.log(JSON.stringify(replayOne(JSON.parse(require('fs').readFileSync(replay, 'utf8'))))); return }
  const thorough = C.argAfter('--tier', 'quick') === 'thorough'
  const info = C.shardInfo()
  if (info) {
    const rep = runShard(info, thorough)
    require('fs').writeFileSync(info.partial, JSON.stringify(rep.toPartial()))
    return
  }
  const rep = await C.runSharded(__filename, ['--tier', thorough ? 'thorough' : 'quick'])
  const res = rep.toResult('C04',
    'the model corpus: every text / element feature kind alone, as sibling pairs and under element / block / if / for parents; every control construct (block, if chains, for over array / object / string / number with default and renamed variables and keys, for+if, template definitions and uses with every data form, slots, slot-value scopes, inline and external scripts, include / import across files) around every body kind; thorough adds every control construct inside every control construct; each in 9 concrete-syntax variants; under every data environment of the pool for the names used (exhaustive up to the cap, pairwise cover beyond). non-trivial = more than one environment; distinct = (case, syntax variant)',
    { corpus: G.corpus(thorough).length, syntax_variants: T.SYNTAX_VARIANTS.length, environment_cap: thorough ? 600 : 300, nesting: thorough ? 'control in control' : 'control around a body' },
    true,
    ['V8 runs the generated code on the recording runtime (substrate B)', 'the reference renderer interprets the model, not the compiler AST', 'not asserted: valueless class / style / id, truthiness of a static wx:if string, class: / style: prefixed families, valueless slot values'],
    {})
  C.writeResult(C.argAfter('--out', C.WORK + '/C04.result.json'), res)
}
main().catch((e) => { console.error(e); process.exit(3) })
