#!/usr/bin/env python3
"""tools_round.py <N> backup|confirm|eval|keep

Handles one round of seeded changes delivered by sub-agents in /tmp/seed<N>-cXX-y (worktrees /tmp/wt<N>-cXX).
  backup  : copy every deliverable directory to /verif/.work/seeds/ at once (nothing is lost if /tmp is cleaned)
  confirm : tools_confirm_seed.sh for each (suite passes with the change, demo fails with it, passes without it)
  eval    : apply each patch to /repo, run the quick check of its property, restore /repo; summary in .work/round<N>.json
  keep    : copy the deliverables into /verif/seeded/<id>/ with meta (caught at first run or after strengthening, from
            .work/round<N>.json and .work/round<N>.notes.json {id: note})
"""
import json, os, re, shutil, subprocess, sys

N, action = sys.argv[1], sys.argv[2]
WORK = '/verif/.work'


def seeds():
    out = []
    for d in sorted(os.listdir('/tmp')):
        m = re.fullmatch(r'seed%s-(c\d\d)-([a-z])' % N, d)
        p = '/tmp/' + d
        if m and os.path.isdir(p) and os.path.exists(p + '/meta.json') and os.path.exists(p + '/patch.diff'):
            out.append((d, m.group(1), m.group(2), p))
    return out


if action == 'backup':
    os.makedirs(WORK + '/seeds', exist_ok=True)
    for d, prop, x, p in seeds():
        dst = WORK + '/seeds/' + d
        if os.path.exists(dst):
            shutil.rmtree(dst)
        shutil.copytree(p, dst)
    print('backed up', len(seeds()))
elif action == 'confirm':
    for d, prop, x, p in seeds():
        r = subprocess.run(['/verif/tools_confirm_seed.sh', p, '/tmp/wt%s-%s' % (N, prop)], stdout=subprocess.PIPE, stderr=subprocess.STDOUT, text=True)
        print(r.stdout.strip().splitlines()[-1][:160], flush=True)
elif action == 'eval':
    res = {}
    only = sys.argv[3:]
    for d, prop, x, p in seeds():
        sid = '%s-%s' % (prop, x)
        if only and sid not in only:
            continue
        patch = p + '/patch.ported.diff' if os.path.exists(p + '/patch.ported.diff') else p + '/patch.diff'
        r = subprocess.run(['/verif/tools_seed.sh', patch, prop.upper(), 'quick'], stdout=subprocess.PIPE, stderr=subprocess.STDOUT, text=True, errors='replace')
        out = r.stdout
        viol = [l for l in out.splitlines() if l.startswith('VIOLATION')]
        mach = [l for l in out.splitlines() if l.startswith('MACHINERY') or 'patch does not apply' in l or 'not clean' in l]
        res[sid] = {'violations': len(viol), 'first': viol[0][:300] if viol else None, 'problem': mach[0][:200] if mach else None}
        print(sid, 'violations=%d' % len(viol), (mach[0][:120] if mach else ''), (viol[0][:160] if viol else ''), flush=True)
    path = WORK + '/round%s.json' % N
    old = json.load(open(path)) if os.path.exists(path) and only else {}
    old.update(res)
    json.dump(old, open(path, 'w'), indent=1)
elif action == 'keep':
    first = json.load(open(WORK + '/round%s.first.json' % N))
    notes = json.load(open(WORK + '/round%s.notes.json' % N)) if os.path.exists(WORK + '/round%s.notes.json' % N) else {}
    for d, prop, x, p in seeds():
        sid = '%s-%s' % (prop, x)
        caught = 'yes' if first.get(sid, {}).get('violations', 0) > 0 else 'after-strengthening'
        subprocess.run(['python3', '/verif/tools_keep_seed.py', p, sid, notes.get(sid + ':check', prop.upper()), caught, notes.get(sid, '')], check=True, stdout=subprocess.DEVNULL)
    print('kept', len(seeds()))
