#!/bin/bash
# usage: tools_revfix.sh <commit>:<Cxx> ...  — re-introduces the defect repaired by a "fix:" commit (reverse patch on the
# current tree), runs the quick check of the property, restores /repo. One line per commit in .work/revfix.log.
cd /verif
for X in "$@"; do
  C=${X%%:*}; P=${X##*:}
  D=$(mktemp /tmp/revfix.XXXXXX)
  git -C /repo diff $C $C^ > $D
  if ! git -C /repo apply --check $D 2>/dev/null; then echo "$C $P REVERSE-PATCH-DOES-NOT-APPLY" | tee -a .work/revfix.log; rm -f $D; continue; fi
  R=$(./tools_seed.sh $D $P quick 2>&1)
  N=$(echo "$R" | grep -a -c "^VIOLATION")
  F=$(echo "$R" | grep -a "^VIOLATION" | head -1 | cut -c1-220)
  echo "$C $P violations=$N $F" | tee -a .work/revfix.log
  rm -f $D
done
