#!/bin/bash
# usage: tools_confirm_all.sh <seed-dir>...  — confirms each seed (/tmp/seedN-cXX-y) in its own scratch worktree (/tmp/wtN-cXX)
for S in "$@"; do
  B=$(basename $S)            # seed3-c09-e
  R=$(echo $B | sed -E 's/seed([0-9])-.*/\1/')
  P=$(echo $B | sed -E 's/seed[0-9]-(c[0-9]+)-.*/\1/')
  /verif/tools_confirm_seed.sh $S /tmp/wt$R-$P 2>&1 | tail -1
done
