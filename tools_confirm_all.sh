#!/bin/bash
# usage: tools_confirm_all.sh <seed-dir>...  — confirms each seed in its own scratch worktree (/tmp/wt2-<pid>), log to .work/confirm.log
for S in "$@"; do
  B=$(basename $S)            # seed2-c09-c
  P=$(echo $B | sed -E 's/seed2-(c[0-9]+)-.*/\1/')
  /verif/tools_confirm_seed.sh $S /tmp/wt2-$P 2>&1 | tail -1
done
