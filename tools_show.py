#!/usr/bin/env python3
import json,sys
r=json.load(open(sys.argv[1]))
c=r['coverage']
print({k:c[k] for k in c if k not in('samples','space_list_head','rule','bound','spaces')})
print('violations',len(r['violations']))
n=int(sys.argv[2]) if len(sys.argv)>2 else 40
for v in r['violations'][:n]: print(v['occurrences'], v['fingerprint'][:160]); print('      ',v['what'][:int(sys.argv[3]) if len(sys.argv)>3 else 300])
print(r['machinery_errors'][:3])
