#!/bin/bash
# runs every thorough tier in sequence (in /verif, against /repo itself); log in .work/thorough.log
cd /verif
: > .work/thorough.log
for p in ${@:-C11 C13 C02 C05 C03 C04 C12 C15 C16 C14 C18 C10 C19 C20 C17 C08 C09 C06 C07 C01}; do
  S=$(date +%s)
  timeout 7200 ./check $p --tier thorough > .work/thorough.$p.out 2>&1
  RC=$?
  E=$(( $(date +%s) - S ))
  echo "$p rc=$RC wall=${E}s $(grep -a -E "^C[0-9]+ thorough" .work/thorough.$p.out | cut -c1-220)" >> .work/thorough.log
  grep -a -E "^VIOLATION|^MACHINERY|^STALE" .work/thorough.$p.out | cut -c1-300 | head -5 >> .work/thorough.log
done
echo ALL-DONE >> .work/thorough.log
