#!/bin/bash
# usage: tools_regress_subset.sh <glob>...  — like tools_regress_seeds.sh for the seeds matching the globs (relative to seeded/);
# one line per seed in .work/regress.log. Meant to run on copies of /repo and /verif in a private mount namespace:
#   unshare -m bash -c "mount --bind <copy of repo> /repo && mount --bind <copy of verif> /verif && /verif/tools_regress_subset.sh 'c08-?' ..."
cd /verif
: > .work/regress.log
for G in "$@"; do
  for D in seeded/$G; do
    [ -d "$D" ] || continue
    S=$(basename $D)
    P=$(python3 -c "import json; print(json.load(open('$D/meta.json'))['caught_by'])")
    PATCH=$D/patch.diff
    [ -f $D/patch.ported.diff ] && PATCH=$D/patch.ported.diff
    if ! git -C /repo apply --check $PWD/$PATCH 2>/dev/null; then echo "$S $P PATCH-DOES-NOT-APPLY" >> .work/regress.log; continue; fi
    R=$(./tools_seed.sh $PWD/$PATCH $P quick 2>&1)
    N=$(echo "$R" | grep -a -c "^VIOLATION")
    E=$(echo "$R" | grep -a "^exit=" | tail -1)
    echo "$S $P violations=$N $E" >> .work/regress.log
  done
done
echo DONE >> .work/regress.log
